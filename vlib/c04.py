"""C04 - no received frame or network command can panic or hang the device."""
from . import macfam, core
PID = "C04"

def run():
    t = core.tier() == "thorough"
    return macfam.run(PID, [[f"hist={40 if t else 5}", f"steps={70 if t else 45}", "profile=hostile"],
                            # single-channel walk: every channel index once the only enabled one (ascending and descending)
                            ["hist=2", "profile=onlych"] + ([] if t else ["fronts=nb,async"]),
                            # the nb state machine under free-form event sequences: every sequence of 4 (thorough: 5) events
                            # that starts with a request, over an 11-event alphabet, plus every pair of events from Idle
                            ["cmd=nbwalk"],
                            # the async front-end (with and without Class C) under an enumerated alphabet of procedures:
                            # (send | join) x RX1 outcome x RX2 outcome x radio fault position, every one followed by a second procedure
                            ["cmd=awalk"]],
        "device panicked, hung or left the specification", 
        "seeded random histories over 9 regions x {nb, async, async+ClassC} x {OTAA, ABP}: joins (JoinAccepts with every DLSettings/RxDelay/CFList kind incl. RFU), sends, downlinks of every class (authentic with MAC-command streams whose fields are drawn from boundary+random sets, replays, forged, foreign, random bytes, oversize), radio faults; every call runs under catch_unwind, an RNG draw budget and a watchdog; PLUS the enumerations: single-channel walk (every channel index once the only enabled one), nb state machine under free-form event sequences (prefix into each state x every sequence of 2/3 events of a 12-event alphabet), every async procedure (send|join x RX1 x RX2 outcome x fault position) followed by a second one with/without Class C, and the certification / multicast builds under CertTrace.tla + the handler's behaviour model; distinct = distinct (region/front, event kind, response, frame classes, pending length) tuples",
        macfam.COMMON_ASSUMPTIONS + ["a panic or an exhausted draw budget (>10000 draws in one call) is an event no specification action matches, except the listed open finding",
                                     "certification build: CertTrace.tla states only robustness and counter clauses (what each TS009 command should do is outside the listed properties)"],
        # the device built with its certification-protocol handler (non-default cargo feature), under CertTrace.tla
        extra=[macfam.certification(PID)],
        # design level: under weak fairness of the procedure's own steps every receive procedure returns to the caller
        mc=[("MCFront.tla", "MCFrontLive.cfg", {"workers": 4}),
            # ... and so does every receive procedure of the nb state machine, whatever else happens in between
            ("MCNb.tla", "MCNbLive.cfg", {"workers": 4})])

def replay(path):
    return macfam.replay(PID, path)
