"""Specification -> implementation for the multicast group table: MCMc.tla (design-level model over a scaled counter
space: every order of set-up requests, delete requests and frames; the acceptance rule is McCore!Judge, the operator
McTrace.tla holds the implementation to) is model-checked, TLC prints one event sequence per TRANSITION, a seeded
sample (quick) or all (thorough: capped) of the maximal ones are executed on the real device built with the `multicast`
feature (`vh mcdata seqs=`), McTrace.tla judges every frame from its bytes, and the verdict the model predicted for
each frame is compared with what the device reported."""
import glob, json, os, random, re
from . import core, macfam, mcdata

_REPLAY = re.compile(r'^<<"REPLAY", "(.*)">>\s*$')


def sequences(pid):
    r = core.model_check("MCMc.tla", "MCMcGen.cfg", pid, workers=1, coverage=False, timeout=1800)
    if not r["ok"]:
        core.log(r["out"][-3000:])
        raise core.ToolError("MCMc.tla: the design-level model of the multicast group table violates its own properties")
    seqs = set()
    for line in r["out"].splitlines():
        m = _REPLAY.match(line)
        if m:
            seqs.add(m.group(1).replace('\\"', '"'))
    hl = [json.loads(h) for h in seqs]
    prefixes = set()
    for h in hl:
        for i in range(1, len(h)):
            prefixes.add(json.dumps(h[:i], sort_keys=True))
    # (TLC prints the fields of a freshly built record in construction order and those of a stored one sorted: compare canonically)
    maximal = sorted((h for h in hl if json.dumps(h, sort_keys=True) not in prefixes), key=lambda x: json.dumps(x, sort_keys=True))
    return maximal, r, len(hl)


def extra(pid):
    def fn(rep, wd):
        design = core.model_check("MCMc.tla", "MCMc.cfg", pid, workers=4, timeout=1800)
        if not design["ok"]:
            core.log(design["out"][-3000:])
            raise core.ToolError("MCMc.tla: design-level model of the multicast group table fails (the specification is wrong)")
        # the same operator with the REAL constants, for every next / maxMcFCount / frame counter at once (Apalache, SMT)
        lemma = core.apalache_check("McApa.tla", "Inv", pid)
        if not lemma["ok"]:
            core.log(lemma["out"][-3000:])
            raise core.ToolError("McApa.tla: Apalache did not prove the lemma about McCore!Judge - the specification itself is wrong")
        maximal, r, printed = sequences(pid)
        if not maximal:
            raise core.ToolError("MCMcGen.cfg printed no event sequence")
        cap = 4000 if core.tier() == "thorough" else 900
        rnd = random.Random(core.seed())
        chosen = maximal if len(maximal) <= cap else rnd.sample(maximal, cap)
        d = os.path.join(wd, "mcmc")
        os.makedirs(d, exist_ok=True)
        for f in glob.glob(os.path.join(d, "mac.*.ndjson")):
            os.remove(f)
        src = os.path.join(d, "seqs.ndjson")
        with open(src, "w") as f:
            for h in chosen:
                f.write(json.dumps(h) + "\n")
        core.run_vh("mcdata", d, shards=core.NCPU, cert=True, extra=[f"seqs={src}"])
        traces = sorted(glob.glob(os.path.join(d, "mac.*.ndjson")))
        res = mcdata.validate(pid, traces, d)
        mcdata._report(rep, pid, res, lambda name: name.startswith(mcdata.CLAUSES["C05"]), "sequence of the group-table model (MCMc), data path")
        # the model's own verdict against the device's answer
        frames = agree = nviol = 0
        for t in traces:
            evs = core.read_events(t)
            for i, e in enumerate(evs):
                if e["ev"] != "a_rxc" or not e.get("calls"):
                    continue
                intent = e["calls"][0].get("intent", "")
                if not intent.startswith("mcmc:acc="):
                    continue
                frames += 1
                want = intent.endswith("=1")
                got = e["resp"].get("k") == "Multicast" and e["resp"].get("mk") == "received"
                if want == got:
                    agree += 1
                    continue
                nviol += 1
                if nviol <= 10:
                    hist = macfam.history_of(t, i + 1)
                    rep.violation({"property": pid, "mc": True, "cert": True, "ops": macfam.ops_of(hist),
                                   "failing_event": {k: e[k] for k in e if k != "opj"}, "model_verdict": "accept" if want else "ignore"},
                                  f"multicast build: the design-level model (MCMc) {'accepts' if want else 'ignores'} this frame, the device "
                                  f"{'accepted' if got else 'did not accept'} it (event {len(hist)} of the sequence)")
        n, hist, kinds, distinct = macfam.summarise(traces)
        return {"_states": design["distinct"] + sum(x["distinct"] for x in res), "_transitions": design["generated"] + sum(x["generated"] for x in res),
                "_evaluations": n, "_distinct": frames,
                "multicast_table_model_replayed_into_impl": {
                    "module": "MCMc.tla (+ McCore.tla, shared with McTrace.tla)", "cfg": "MCMc.cfg / MCMcGen.cfg",
                    "design_states": design["distinct"], "design_transitions": design["generated"], "depth": design.get("depth"),
                    "invariants": ["NextFollowsLast", "AcceptedInRange", "EmptySlotHasNoHistory",
                                   "in-action: the counter rule agrees with the declarative reading; accepted counters increase within an incarnation"],
                    "symbolic_lemma": {"tool": "apalache-mc 0.58 (SMT)", "module": "McApa.tla", "invariant": "AcceptIffInRange /\\ AcceptedCounterIsTheFrames /\\ RebuildSound /\\ RebuildComplete /\\ IncIsSuccessor",
                                       "constants": "16-bit wire counter, 32-bit counters (the real ones)", "wall_s": round(lemma["wall"], 1)},
                    "transitions_printed": printed, "maximal_sequences": len(maximal), "sequences_executed": len(chosen),
                    "frames_with_model_verdict": frames, "verdicts_agreeing": agree, "events": n,
                    "rule": "2 slots x 2 addresses x 2 keys x 4 (minMcFCount, maxMcFCount) ranges over a 3-bit counter space with a 2-bit wire counter "
                            "(roll-over of the wire counter and the top of the range within reach), every order of set-up, delete and frame events; "
                            "embedded into the real counter space order-preservingly (n -> (n div 4) * 65536 + [0, 1, 65534, 65535][n mod 4])"}}
    return fn
