"""C20 (MAC family: MacTrace.tla)."""
from . import macfam, core
PID = "C20"


def run():
    t = core.tier() == "thorough"
    return macfam.run(PID, [f"hist={40 if t else 4}", f"steps={70 if t else 45}", "profile=persist"],
        'restored session differs from the original',
        "seeded random histories with a serialise/deserialise/install step after ~5% of the calls (nb: set_session of the copy); every session field is compared before/after and the rest of the history (next uplinks, verdicts on replays) is validated against the same specification state, i.e. the restored device is held to the original's future",
        macfam.COMMON_ASSUMPTIONS)


def replay(path):
    return macfam.replay(PID, path)
