"""C07 (MAC family: MacTrace.tla)."""
from . import macfam, core
PID = "C07"


def run():
    t = core.tier() == "thorough"
    return macfam.run(PID, [f"hist={40 if t else 4}", f"steps={70 if t else 45}", "profile=reject"],
        "a frame that is not accepted changed the device's later behaviour",
        'seeded random histories in which 60% of the delivered frames are not acceptable (random bytes, bit-flips of authentic frames, frames under foreign keys or for another address, replays, stale/far-future counters, oversize frames, JoinAccepts under a wrong key or while joined), delivered after MAC-command downlinks that leave sticky answers / owed ACK / ADR state; the specification is deterministic given the logged environment, so validating the trace is running a perfect twin that never saw the rejected frames',
        macfam.COMMON_ASSUMPTIONS)


def replay(path):
    return macfam.replay(PID, path)
