"""C05 (MAC family: MacTrace.tla)."""
from . import macfam, core, purefn, mcdata, mcmc
import glob, os
PID = "C05"


def arithmetic(rep, wd):
    """all 65536 wire values for each recorded `last`, against Mac!NextFcnt (hook verif_next_fcnt_down)"""
    d = os.path.join(wd, "fcnt")
    os.makedirs(d, exist_ok=True)
    out = core.run_vh("fcnt", d, shards=core.NCPU)
    n = core.kv(out)["events"]
    traces = sorted(glob.glob(os.path.join(d, "fcnt.*.ndjson")))
    res, bad = purefn.validate(PID + "-fcnt", "FcntTrace.tla", "FcntTrace.cfg", traces)
    for tr, ln, ev, mm in bad[:10]:
        rep.violation({"property": PID, "kind": "fcnt", "event": purefn.trim(ev), "mismatch": [m[:500] for m in mm[:3]]},
                      f"counter reconstruction differs from Mac!NextFcnt for last={ev['last']}: {mm[0][:200]}")
    st, gen, acc = purefn.totals(res)
    return {"_states": st, "_transitions": gen, "_evaluations": n * 65536, "_distinct": n * 65536,
            "arithmetic": {"last_values": n, "wire_values_each": 65536, "traces_accepted": acc,
                           "rule": "last in {None} + boundary classes (0, 16384, 0xFFFF, 0x10000, 0x7FFFFFFF, 0x80000000, 0xFFFF0000, 0xFFFFBFFF, 2^32-1) +- offsets + random; every wire value 0..65535"}}


def lemma(rep, wd):
    """Apalache (SMT): the acceptance property of the very operator Mac!NextFcnt is defined by (FcntCore!Reconstruct),
    with the REAL constants, for all 2^32 x 2^16 inputs at once - closes the gap left by MCFcnt's scaled constants."""
    r = core.apalache_check("FcntApa.tla", "Inv", PID)
    if not r["ok"]:
        core.log(r["out"][-3000:])
        raise core.ToolError("FcntApa.tla: Apalache did not prove the reconstruction lemma - the specification itself is wrong")
    return {"symbolic_lemma": {"tool": "apalache-mc 0.58 (SMT)", "module": "FcntApa.tla", "invariant": "Inv = AcceptIffFresh /\\ ReconstructionSound /\\ ReconstructionComplete",
                               "constants": "WireMod 65536, MaxGap 16384, 32-bit counters (the real ones)",
                               "domain": "every last accepted counter (or none) x every candidate counter x every wire value, symbolically",
                               "wall_s": round(r["wall"], 1)}}


def run():
    t = core.tier() == "thorough"
    return macfam.run(PID, [f"hist={40 if t else 4}", f"steps={70 if t else 45}", "profile=fcnt"],
        "downlink accepted/rejected differently from 'authentic and fresh'",
        'seeded random histories (9 regions x nb/async/async+ClassC) dominated by downlinks of every class: fresh (gaps 1, 2..200, 16384), replayed, stale, far-future (gap > 16384), bit-flipped, foreign-key, other-address, random, oversize; Codec.tla decides authenticity, Mac!NextFcnt freshness; every delivery, counter advance, response and queued answer is compared',
        macfam.COMMON_ASSUMPTIONS, mc=[("MCFcnt.tla", "MCFcnt.cfg", {"workers": 4})], extra=[arithmetic, lemma,
               # beyond the default build: the multicast data path (cargo feature `multicast`) under McTrace.tla
               mcdata.extra(PID),
               # specification -> implementation: event sequences of the design-level model of the group table (MCMc.tla)
               mcmc.extra(PID)])


def replay(path):
    import json
    with open(path) as f:
        if json.load(f).get("mc"):
            return mcdata.replay(PID, path)
    return macfam.replay(PID, path)
