"""C05 (MAC family: MacTrace.tla)."""
from . import macfam, core
PID = "C05"


def run():
    t = core.tier() == "thorough"
    return macfam.run(PID, [f"hist={40 if t else 4}", f"steps={70 if t else 45}", "profile=fcnt"],
        "downlink accepted/rejected differently from 'authentic and fresh'",
        'seeded random histories (9 regions x nb/async/async+ClassC) dominated by downlinks of every class: fresh (gaps 1, 2..200, 16384), replayed, stale, far-future (gap > 16384), bit-flipped, foreign-key, other-address, random, oversize; Codec.tla decides authenticity, Mac!NextFcnt freshness; every delivery, counter advance, response and queued answer is compared',
        macfam.COMMON_ASSUMPTIONS, mc=[("MCFcnt.tla", "MCFcnt.cfg", {"workers": 4})])


def replay(path):
    return macfam.replay(PID, path)
