"""C19 - MAC-command builders, parsers and identifier text forms round-trip
(MacCmds.tla field layouts, BuildCmd/ParseCmd, text forms; CmdTrace.tla)."""
import glob, json, os
from . import core, cmdfam, purefn

PID = "C19"
WHAT = "builder / accessor / text form differs from the MacCmds.tla layout"


def _count(traces):
    n_events = 0
    kinds = {}
    evaluations = 0
    distinct = set()
    setters = set()      # (set, command, setter) exercised
    accessors = set()    # (set, command, field or derived) observed
    refused = accepted_oor = 0
    for t in traces:
        with open(t) as f:
            for line in f:
                e = json.loads(line)
                n_events += 1
                k = e["ev"]
                kinds[k] = kinds.get(k, 0) + 1
                if k == "build":
                    evaluations += 1
                    for s in e["sets"]:
                        setters.add((e["set"], e["name"], s["f"]))
                        refused += s["r"] == 0
                    if e["sets"]:
                        distinct.add((k, e["set"], e["name"], json.dumps(e["bytes"]), tuple((s["f"], s["r"]) for s in e["sets"])))
                elif k == "parse_fields":
                    evaluations += 1
                    if e["found"] == 1:
                        c = e["c"]
                        for n in c["f"]:
                            accessors.add((e["set"], c["name"], n))
                        for n in c["d"]:
                            accessors.add((e["set"], c["name"], "d." + n))
                        distinct.add((k, e["set"], c["name"], json.dumps(c["payload"])))
                elif k == "stream":
                    evaluations += 1
                    if e["cmds"]:
                        distinct.add((k, e["set"], tuple(c["name"] for c in e["cmds"]), e["ok"], json.dumps(e["bytes"])))
                elif k == "text":
                    evaluations += len(e["wires"])
                    for w in e["wires"]:
                        distinct.add((k, e["type"], bytes(w)))
                elif k == "fromstr":
                    evaluations += len(e["strs"])
                    for s, ok in zip(e["strs"], e["oks"]):
                        distinct.add((k, e["type"], bytes(s), ok))
    return n_events, kinds, evaluations, len(distinct), sorted(setters), sorted(accessors), refused


def run():
    rep = core.Report(PID)
    wd = core.workdir(PID)
    mc = cmdfam.design_check(PID)
    out1 = core.run_vh("cmds_fields", wd, shards=core.NCPU)
    out2 = core.run_vh("idtext", wd, shards=core.NCPU)
    traces = sorted(glob.glob(os.path.join(wd, "fields.*.ndjson"))) + sorted(glob.glob(os.path.join(wd, "text.*.ndjson")))
    res, bad, sigs = cmdfam.validate(PID, traces, wd)
    for tr, ln, ev, mm in bad:
        rep.violation({"property": PID, "event": ev, "mismatch": [m[:1200] for m in mm[:4]]}, WHAT + ": " + cmdfam.summ(ev, mm))
    known, foreign = cmdfam.report_known(rep, res, sigs)
    states, gen_states, accepted = purefn.totals(res)
    n_events, kinds, evaluations, distinct, setters, accessors, refused = _count(traces)
    first = core.read_events(traces[0], 300)
    samples = []
    for kind in ("build", "parse_fields", "stream"):
        for e in first:
            if e["ev"] == kind and (e.get("sets") or e.get("found") or e.get("cmds")):
                samples.append(purefn.trim(e, 20))
                break
    tx = core.read_events(traces[-1], 3)
    samples += [purefn.trim(e, 3) for e in tx[:1]]
    thorough = core.tier() == "thorough"
    cov = {
        "states": states + mc["distinct"], "transitions": gen_states + mc["generated"],
        "traces_validated_against_impl": accepted,
        "evaluations": evaluations, "distinct_nontrivial": distinct,
        "rule": "one evaluation = one creator driven through a sequence of setter calls and built (bytes compared with the layout "
                "fold of MacCmds.tla, every setter once in random order, the setter under test with every argument of its domain "
                "when that is <= 16 bits%s, boundary + random otherwise), one command parsed and every accessor compared with "
                "FieldGet of the layout (every octet position with %s, other octets random), one build_mac_commands call (random "
                "lists of 0..8 creators, buffer at the boundary) parsed back, one identifier/key value printed and parsed back, "
                "or one string given to FromStr. distinct = distinct (creator, setter outcomes, built bytes), (command, payload), "
                "(stream command list, outcome, bytes), (type, value), (type, string, outcome); builds without a setter and "
                "unparsed inputs are trivial and not counted"
                % ((" (RxAppCnt and ChMask: all 65536)" if thorough else " (16-bit RxAppCnt/ChMask: boundary + sample in the quick tier)"),
                   ("all 256 values" if thorough else "all 256 values for one-octet payloads, boundary + random values otherwise")),
        "event_kinds": kinds,
        "harness_summary": {**core.kv(out1), **{"text_" + k: v for k, v in core.kv(out2).items()}},
        "setters_exercised": len(setters), "accessors_compared": len(accessors),
        "accessor_list": ["/".join(a) for a in accessors],
        "setter_calls_refused": refused,
        "not_covered": [
            "layout fields without an accessor in the library (parse side not comparable): TXParamSetupReq.MaxEIRP and "
            "DeviceTimeAns.FracSecond only through max_eirp()/nano_seconds(); RxAppCntAns.RxAppCnt, DutVersionsAns.*, "
            "McGroupSetupAns.IDerror, all fields of McClassC/BSessionReq/Ans",
            "commands without a usable creator: TxFramesCtrlReq, EchoIncPayloadReq (UnimplementedCreator by design); "
            "creators without setters are only built in their default state (AdrBitChangeReq, TxPeriodicityChangeReq, "
            "McClassC/BSessionReq/Ans, McGroupSetupAns.IDerror)",
            "last-write-wins of repeated setters is not demanded (DESIGN 7.9): every setter is called once per build",
        ],
        "known_deviation_events": known, "other_open_deviation_events": foreign,
        "samples": samples,
        "exhaustive": False,
        "exhaustive_parts": "all 65536 DevNonce values (Display and FromStr); every argument value of every setter whose domain is "
                            "<= 8 bits (u8 0..255, i8 -128..127, bool); all 256 payloads of every one-octet command"
                            + ("; all 65536 RxAppCnt and ChMask values; all 256 values at every octet position of every command" if thorough else ""),
    }
    return rep.finish("model_checking", cov, cmdfam.TRUSTED + [
        "an argument the field can hold must be accepted and change exactly that field; any other argument must be refused "
        "(nothing changes) or truncated to the field (only that field changes); whole-octet setters (DLsettings, Redundancy, "
        "DrRange) take the raw octet, so every u8 is admissible for them",
        "derived accessors: ack() is compared with 'all defined status bits set' only when the RFU bits are 0 (LinkADRAns/"
        "RXParamSetupAns/NewChannelAns use ==, DlChannelAns masks: both accepted when RFU bits are set)",
        "McKey_encrypted is checked as aes128_encrypt(McKEKey, field) = McKey with Aes.tla (no inverse cipher in the spec)",
        "text forms: valid = exactly 2n hexadecimal digits of either case; Display is lowercase MSB-first",
    ])


def replay(path):
    return cmdfam.replay(PID, path)
