"""C18 - reading a received packet never overruns the caller's buffer (RxFetch.tla / WireTrace.tla)."""
import glob, json, os, re
from . import core, purefn, wirefam, macfam

PID = "C18"
_CASE = re.compile(r'"reported",\s*(\d+),\s*"configured",\s*(\d+)')


def _only(ev, mm):
    m = _CASE.search(" ".join(mm))
    rep, cfg = (int(m.group(1)), int(m.group(2))) if m else (ev["cases"][0][0], ev["cases"][0][1])
    return "only=%s,%s,%d,%d,%d,%d,%d,%d" % (ev["chip"], ev["path"], ev["hdr"], ev["off"], ev["bufsz"], ev["status"], rep, cfg)


def run():
    rep = core.Report(PID)
    wd = core.workdir(PID)
    out = core.run_vh("fetch", wd, shards=core.NCPU)
    traces = sorted(glob.glob(os.path.join(wd, "fetch.*.ndjson")))
    res, bad, sigs = wirefam.validate(PID, traces, wd)
    for tr, ln, ev, mm in bad:
        sel = _only(ev, mm)
        slim = dict(ev, cases=[c for c in ev["cases"] if "%d,%d" % (c[0], c[1]) == ",".join(sel.split(",")[-2:])][:1])
        rep.violation({"property": PID, "vh": ["fetch", sel], "event": slim, "mismatch": [m[:700] for m in mm[:3]]},
                      f"packet fetch {ev['chip']}/{ev['path']} implicit_header={ev['hdr']} offset={ev['off']} "
                      f"buffer={ev['bufsz']} status={ev['status']}: {mm[0][:260]}")
    wirefam.report_known(rep, res, sigs)
    states, gen, accepted = wirefam.totals(res)
    # "... and the LoRaWAN adapter hands the MAC exactly those bytes": the MAC's own RadioBuffer, sized 64 / 128 / 33
    # bytes, filled to N-2 .. N bytes by an authentic downlink (RX1, RX2, Class C) or a JoinAccept with CFList;
    # MacTrace.tla decides what each frame must do (accepted, counters, delivered payload, MAC answers)
    bd = os.path.join(wd, "bufwalk")
    os.makedirs(bd, exist_ok=True)
    bout = core.run_vh("bufwalk", bd, shards=core.NCPU)
    btraces = sorted(glob.glob(os.path.join(bd, "mac.*.ndjson")))
    bres, bsigs = macfam.validate(PID, btraces, bd)
    macfam.report(rep, PID, bres, bsigs, "a reception that (nearly) fills the MAC's radio buffer is not handed to the MAC as received")
    bn, bhist, bkinds, bdistinct = macfam.summarise(btraces)
    states += sum(r["distinct"] for r in bres)
    gen += sum(r["generated"] for r in bres)
    accepted += bhist - sum(1 for r in bres if not r["accepted"])
    n = nontrivial = 0
    kinds, outcomes = {}, {"ok": 0, "err": 0, "panic": 0}
    classes = set()
    samples = []
    for e in wirefam.events(traces):
        k = f"{e['chip']}/{e['path']}"
        kinds[k] = kinds.get(k, 0) + len(e["cases"])
        for c in e["cases"]:
            n += 1
            L = c[1] if e["hdr"] else c[0]
            if L > 0:
                nontrivial += 1
            outcomes["panic" if c[2] else "ok" if c[3] else "err"] += 1
            classes.add((e["chip"], e["path"], e["hdr"], L == 0, L > e["bufsz"], e["off"] + L > 256, (e["status"] >> 1) & 7))
        if len(samples) < 3 and e["off"] > 200 and e["bufsz"] == 64:
            samples.append(purefn.trim(e, 6))
    thorough = core.tier() == "thorough"
    cov = {
        "states": states, "transitions": gen, "traces_validated_against_impl": accepted,
        "evaluations": n, "distinct_nontrivial": nontrivial,
        "rule": "one evaluation = one (chip, call path, header mode, reported length, configured length, start offset, "
                "caller buffer size, status byte) tuple fetched twice from the emulated chip (two canary values) and compared "
                "by TLC with RxFetch!OutcomeOk; tuples are enumerated and all distinct; non-trivial = the packet length the "
                "chip defines is > 0 (bytes must be copied from the right chip addresses or the call refused)",
        "cases_per_chip_and_path": kinds, "outcomes": outcomes, "behaviour_classes_covered": len(classes),
        "samples": samples,
        "mac_radio_buffer_walk": {"histories": bhist, "events": bn,
                                  "rule": "async devices built with a radio buffer of 64, 128 and 33 bytes (EU868, US915): an uplink answered in RX1, in RX2 or "
                                          "between the windows (Class C) by an authentic downlink of N-2, N-1 and N bytes on air, with and without FOpts; a "
                                          "33-byte JoinAccept with CFList into the 33-byte buffer; validated by MacTrace.tla"},
        "exhaustive": thorough,
        "explanation": ("RadioKind::get_rx_payload: all 256 lengths x 256 offsets x buffer sizes {0,1,12,64,255,256} x explicit/implicit "
                        "header x 12 status bytes (all 8 command-status codes) for SX1262, and the same length/offset/buffer/header space "
                        "for SX1276 and SX1272 (no status byte); LoRa::complete_rx: the same complete length/offset/buffer/header space "
                        "for SX1262 (2 status bytes), SX1276 and SX1272; LorawanRadio::rx_single: 70 x 70 lengths/offsets (every 4th "
                        "value + boundaries) x buffer sizes, explicit header; LR1110 (explicit header only): the complete "
                        "length/offset/buffer space x 8 Stat1 values on get_rx_payload, x 2 on LoRa::complete_rx, the 70 x 70 grid "
                        "on the adapter"
                        if thorough else
                        "16 lengths x 16 offsets (boundaries 0,1,12,64,127/128,255 and wrap-around) x 6 buffer sizes x header "
                        "modes x status bytes, on RadioKind::get_rx_payload, LoRa::complete_rx and LorawanRadio::rx_single, "
                        "for SX1262, SX1276, SX1272 and (explicit header only) LR1110"),
    }
    return rep.finish("model_checking", cov, [
        "RxFetch.tla states the chips' buffer semantics from the datasheets: 256-byte buffer, address wrap-around at 256 for "
        "SX126x ReadBuffer and the SX127x FIFO pointer, packet length = PayloadLengthRx / RegRxNbBytes (explicit header) or the "
        "configured payload length (implicit header), SX126x command status 3/4/5 = failed command; LR1110: GetRxBufferStatus / "
        "ReadBuffer8 with their responses in separate read transactions that start with Stat1 (command status 0/1 = response "
        "invalid); what the LR1110 reports as the length of an implicit-header packet is not modelled, so only explicit-header "
        "reception is recorded for it",
        "the property allows 'or fails with an error' without saying when; the spec additionally demands success when the packet "
        "fits and the status byte reports no command error (otherwise a driver that always fails would pass)",
        "the emulated chip memory holds the pattern (37*i+11) mod 256 (injective), the caller's buffer a canary; two runs with "
        "different canaries make 'untouched' observable; the LoRaWAN adapter is driven with the caller's slice standing for the "
        "MAC's RadioBuffer (explicit header only: that is what the adapter configures)",
        "on thorough the exhaustive claim covers the finite space named in 'explanation' for RadioKind::get_rx_payload and "
        "LoRa::complete_rx; LorawanRadio::rx_single is sampled (70x70 grid thorough, 16x16 quick)",
    ])


def replay(path):
    with open(path) as f:
        r = json.load(f)
    if "ops" in r:
        return macfam.replay(PID, path)
    return wirefam.replay_events(PID, [r], lambda ev: ("fetch", ev["vh"][1:]))
