"""Shared machinery of the /verif runner: building the harness, running TLC
(model checking, simulation, trace validation), verdicts, evidence."""
import json, os, re, subprocess, sys, time, shutil, glob
from concurrent.futures import ThreadPoolExecutor

ROOT = os.path.dirname(os.path.dirname(os.path.abspath(__file__)))
SPEC = os.path.join(ROOT, "spec")
HARNESS = os.path.join(ROOT, "harness")
WORK = os.path.join(ROOT, "work")
EVID = os.path.join(ROOT, "evidence")
VH = os.path.join(HARNESS, "target", "debug", "vh")
TLA_CP = "/opt/veriftools/tla/tla2tools.jar:/opt/veriftools/tla/CommunityModules-deps.jar"
NCPU = os.cpu_count() or 4


class ToolError(Exception):
    pass


def log(*a):
    print(*a, file=sys.stderr, flush=True)


def tier():
    t = os.environ.get("VERIF_TIER", "quick")
    return "thorough" if t == "thorough" else "quick"


def seed():
    try:
        return int(os.environ.get("VERIF_SEED", "1"))
    except ValueError:
        return 1


def workdir(pid):
    d = os.path.join(WORK, pid)
    shutil.rmtree(d, ignore_errors=True)
    os.makedirs(d, exist_ok=True)
    return d


_built = False


def cargo_build():
    """Build the harness against /repo's current working tree (hooks on)."""
    global _built
    if _built:
        return
    env = dict(os.environ, CARGO_NET_OFFLINE="true")
    lock = os.path.join(HARNESS, "Cargo.lock")
    if not os.path.exists(lock):
        shutil.copy("/repo/Cargo.lock", lock)
    t0 = time.time()
    p = subprocess.run(["cargo", "build", "--offline", "--bin", "vh"], cwd=HARNESS, env=env,
                       stdout=subprocess.PIPE, stderr=subprocess.STDOUT, text=True)
    if p.returncode != 0:
        log(p.stdout[-6000:])
        raise ToolError("harness build failed")
    log(f"[build] harness built in {time.time()-t0:.1f}s")
    _built = True


_built_cert = False


def cargo_build_cert():
    """The same harness with the device's optional handlers compiled in (cargo features `cert` ->
    lorawan-device/certification and `mc` -> lorawan-device/multicast), in its own target directory."""
    global _built_cert
    if _built_cert:
        return
    cargo_build()
    env = dict(os.environ, CARGO_NET_OFFLINE="true")
    t0 = time.time()
    p = subprocess.run(["cargo", "build", "--offline", "--bin", "vh", "--features", "cert,mc", "--target-dir", "target-feat"],
                       cwd=HARNESS, env=env, stdout=subprocess.PIPE, stderr=subprocess.STDOUT, text=True)
    if p.returncode != 0:
        log(p.stdout[-6000:])
        raise ToolError("harness build (certification + multicast features) failed")
    log(f"[build] harness (certification + multicast features) built in {time.time()-t0:.1f}s")
    _built_cert = True


def run_vh(cmd, out, shards=1, extra=(), timeout=3600, check=True, cert=False):
    """Run a harness sub-command; returns its stdout (k=v summary lines)."""
    cargo_build()
    if cert:
        cargo_build_cert()
    args = [os.path.join(HARNESS, "target-feat", "debug", "vh") if cert else VH, cmd, "--out", out, "--shards", str(shards), "--tier", tier(), "--seed", str(seed())] + list(extra)
    t0 = time.time()
    p = subprocess.run(args, stdout=subprocess.PIPE, stderr=subprocess.PIPE, text=True, timeout=timeout)
    if check and p.returncode != 0:
        log(p.stdout[-3000:], p.stderr[-3000:])
        raise ToolError(f"harness command {cmd} failed with {p.returncode}")
    log(f"[vh] {cmd} {' '.join(extra)} -> {p.stdout.strip().splitlines()[-1:] } in {time.time()-t0:.1f}s")
    return p.stdout


def kv(stdout):
    d = {}
    for line in stdout.splitlines():
        for tok in line.split():
            if "=" in tok:
                k, v = tok.split("=", 1)
                try:
                    d[k] = int(v)
                except ValueError:
                    d[k] = v
    return d


# ---------------------------------------------------------------- TLC

_STAT = re.compile(r"(\d+) states generated, (\d+) distinct states found, (\d+) states left on queue")
_DEPTH = re.compile(r"The depth of the complete state graph search is (\d+)")


def _java(args, env=None, timeout=3600, xmx="3g", xss="1g", deque=False):
    e = dict(os.environ)
    e.pop("JAVA_TOOL_OPTIONS", None)
    if env:
        e.update(env)
    # -Xss must be on the command line: JAVA_TOOL_OPTIONS does not reach the launcher's main thread,
    # which is where TLC evaluates ASSUMEs, initial states and POSTCONDITIONs.
    cmd = ["java", f"-Xss{xss}", "-XX:+UseParallelGC", f"-Xmx{xmx}"]
    if deque:
        cmd.append("-Dtlc2.tool.queue.IStateQueue=StateDeque")
    cmd += ["-cp", TLA_CP, "tlc2.TLC"] + args
    try:
        p = subprocess.run(cmd, cwd=SPEC, env=e, stdout=subprocess.PIPE, stderr=subprocess.STDOUT, text=True,
                           timeout=timeout)
    except subprocess.TimeoutExpired:
        raise ToolError("TLC timed out: " + " ".join(args))
    return p.returncode, p.stdout


def _parse_tlc(out):
    r = {"generated": 0, "distinct": 0, "depth": 0}
    for m in _STAT.finditer(out):
        r["generated"], r["distinct"] = int(m.group(1)), int(m.group(2))
    m = _DEPTH.search(out)
    if m:
        r["depth"] = int(m.group(1))
    return r


_TUPLE_START = re.compile(r'^<<\s*"(MISMATCH|TRACE-REJECTED|REPLAY|INFO|KNOWN)"')


def _printed_tuples(out):
    """Extract the <<"TAG", ...>> values printed with PrintT (possibly multi-line)."""
    res, cur, depth = [], None, 0
    for line in out.splitlines():
        if cur is None:
            if _TUPLE_START.match(line.strip()):
                cur, depth = [], 0
            else:
                continue
        cur.append(line.strip())
        depth += line.count("<<") - line.count(">>")
        if depth <= 0:
            res.append(" ".join(cur))
            cur = None
    return res


def validate_trace(module, cfg, trace, metadir, env=None, timeout=3600, xmx="3g", deque=False):
    """Validate one ndjson trace against a trace spec.  Returns a dict."""
    e = {"TRACE": trace}
    if env:
        e.update(env)
    t0 = time.time()
    rc, out = _java(["-workers", "1", "-metadir", metadir, "-noGenerateSpecTE", "-config", cfg, module],
                    env=e, timeout=timeout, xmx=xmx, deque=deque)
    shutil.rmtree(metadir, ignore_errors=True)
    r = _parse_tlc(out)
    tuples = _printed_tuples(out)
    r["mismatches"] = [t for t in tuples if t.startswith('<< "MISMATCH"') or t.startswith('<<"MISMATCH"')]
    r["rejected"] = [t for t in tuples if "TRACE-REJECTED" in t[:24]]
    r["known"] = [t for t in tuples if t.startswith('<<"KNOWN"') or t.startswith('<< "KNOWN"')]
    r["info"] = [t for t in tuples if t.startswith('<<"INFO"') or t.startswith('<< "INFO"')]
    r["trace"] = trace
    r["wall"] = time.time() - t0
    ok_line = "Model checking completed. No error has been found." in out
    r["accepted"] = ok_line and not r["rejected"]
    if not ok_line and not r["rejected"]:
        # neither accepted nor a clean rejection: TLC itself failed (spec error, parse error, ...)
        r["tool_error"] = out[-4000:]
    m = re.search(r'"matched",\s*(\d+),\s*"of",\s*(\d+)', " ".join(r["rejected"]))
    if m:
        r["matched"], r["of"] = int(m.group(1)), int(m.group(2))
    return r


def validate_traces(module, cfg, traces, pid, env=None, jobs=None, timeout=3600, xmx="3g", deque=False):
    jobs = jobs or min(NCPU, max(1, len(traces)))
    md = os.path.join(WORK, pid, "md")

    def one(i_t):
        i, t = i_t
        return validate_trace(module, cfg, t, f"{md}{i}", env=env, timeout=timeout, xmx=xmx, deque=deque)

    with ThreadPoolExecutor(max_workers=jobs) as ex:
        res = list(ex.map(one, enumerate(traces)))
    for r in res:
        if "tool_error" in r:
            log(r["tool_error"])
            raise ToolError(f"TLC failed on {r['trace']}")
    return res


def model_check(module, cfg, pid, workers=None, simulate=None, depth=None, timeout=3600, xmx="8g", coverage=True,
                env=None):
    """Exhaustive (or simulated) TLC run of an MC config.  Returns dict with ok / violation text."""
    md = os.path.join(WORK, pid, "mc_" + os.path.splitext(os.path.basename(cfg))[0])
    shutil.rmtree(md, ignore_errors=True)
    args = ["-workers", str(workers or min(8, NCPU)), "-metadir", md, "-noGenerateSpecTE", "-config", cfg]
    if coverage:
        args += ["-coverage", "1"]
    if simulate:
        args += ["-simulate", f"num={simulate}"]
        if depth:
            args += ["-depth", str(depth)]
    args.append(module)
    t0 = time.time()
    rc, out = _java(args, timeout=timeout, xmx=xmx, env=env)
    shutil.rmtree(md, ignore_errors=True)
    r = _parse_tlc(out)
    r["wall"] = time.time() - t0
    r["ok"] = "No error has been found" in out or (simulate and rc == 0 and "Error:" not in out)
    r["out"] = out
    r["violated"] = re.findall(r"Error: (Invariant|Action property|Temporal propert\w+) (\S+) (?:is|was) violated", out)
    if not r["ok"] and not r["violated"]:
        log(out[-5000:])
        raise ToolError(f"TLC failed on {module}/{cfg}")
    # per-action coverage: lines like  <Name line x, col y to ... of module M>: distinct:total
    cov = {}
    for m in re.finditer(r"^<(\w+) line \d+, col \d+ to line \d+, col \d+ of module (\w+)(?: \([\d ]+\))?>: (\d+):(\d+)", out, re.M):
        cov[m.group(1)] = cov.get(m.group(1), 0) + int(m.group(4))
    r["coverage"] = cov
    r["tuples"] = _printed_tuples(out)
    return r


# ---------------------------------------------------------------- verdicts / evidence

def load_known(pid):
    p = os.path.join(ROOT, "known_findings.json")
    if not os.path.exists(p):
        return []
    with open(p) as f:
        return [k for k in json.load(f).get("findings", []) if k.get("property") == pid]


def write_replay(pid, n, obj):
    d = os.path.join(EVID, "replays", pid)
    os.makedirs(d, exist_ok=True)
    p = os.path.join(d, f"{n}.json")
    with open(p, "w") as f:
        json.dump(obj, f, indent=1)
    return p


def clear_replays(pid):
    shutil.rmtree(os.path.join(EVID, "replays", pid), ignore_errors=True)


def write_evidence(pid, level, coverage, assumptions, wall, violations):
    os.makedirs(EVID, exist_ok=True)
    ev = {
        "property_id": pid,
        "tier": tier(),
        "seed": seed(),
        "level": level,
        "coverage": coverage,
        "assumptions": assumptions,
        "wall_s": round(wall, 2),
        "violations": violations,
    }
    with open(os.path.join(EVID, f"{pid}.json"), "w") as f:
        json.dump(ev, f, indent=1)


def read_events(path, limit=None):
    ev = []
    with open(path) as f:
        for i, line in enumerate(f):
            if limit is not None and i >= limit:
                break
            ev.append(json.loads(line))
    return ev


def nth_event(path, n):
    """1-based line n of an ndjson file."""
    with open(path) as f:
        for i, line in enumerate(f, 1):
            if i == n:
                return json.loads(line)
    return None


class Report:
    """Collects the verdict of one check run."""

    def __init__(self, pid):
        self.pid = pid
        self.violations = []   # (replay path, summary)
        self.known = []        # summaries
        self.t0 = time.time()
        clear_replays(pid)

    def violation(self, replay_obj, summary):
        p = write_replay(self.pid, len(self.violations) + 1, replay_obj)
        self.violations.append((p, summary))

    def known_finding(self, summary):
        if summary not in self.known:
            self.known.append(summary)

    def finish(self, level, coverage, assumptions):
        wall = time.time() - self.t0
        write_evidence(self.pid, level, coverage, assumptions, wall, len(self.violations))
        for k in self.known:
            print(f"KNOWN-FINDING: property={self.pid} {k}")
        for p, s in self.violations[:20]:
            print(f"VIOLATION property={self.pid} replay={p}  # {s}")
        if self.violations:
            return 1
        print(f"OK property={self.pid} tier={tier()} wall={wall:.1f}s")
        return 0


# ---------------------------------------------------------------- Apalache (symbolic, unbounded integers)

def apalache_check(module, inv, pid, length=0, timeout=900):
    """Bounded symbolic check of `inv` with Apalache (SMT).  Used for design-level lemmas over the REAL constants,
    where TLC can only enumerate scaled-down ones.  Returns dict(ok, wall, out); a failing lemma is a tool error
    for the caller (the specification itself would be wrong)."""
    out_dir = os.path.join(WORK, pid, "apalache")
    shutil.rmtree(out_dir, ignore_errors=True)
    os.makedirs(out_dir, exist_ok=True)
    t0 = time.time()
    try:
        p = subprocess.run(["apalache-mc", "check", f"--length={length}", f"--inv={inv}", f"--out-dir={out_dir}",
                            os.path.join(SPEC, module)], cwd=out_dir, stdout=subprocess.PIPE, stderr=subprocess.STDOUT,
                           text=True, timeout=timeout)
    except subprocess.TimeoutExpired:
        raise ToolError(f"apalache timed out on {module}")
    ok = p.returncode == 0 and "The outcome is: NoError" in p.stdout
    shutil.rmtree(out_dir, ignore_errors=True)
    return {"ok": ok, "wall": time.time() - t0, "out": p.stdout, "violated": "invariant" in p.stdout and "violated" in p.stdout}
