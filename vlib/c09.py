"""C09 (MAC family: MacTrace.tla)."""
from . import macfam, core, mcdata
import glob, json, os
PID = "C09"


def choice_stats(rep, wd):
    """forked continuations: one per possible first RNG draw at checkpointed states (every channel choice is checked)"""
    groups, forks = {}, 0
    for t in sorted(glob.glob(os.path.join(wd, "mac.*.ndjson"))):
        hist, cur = 0, None
        with open(t) as f:
            for line in f:
                e = json.loads(line)
                if e["ev"] == "reset":
                    hist += 1
                    cur = None
                elif e["ev"] == "restore":
                    cur = (t, hist, e["id"])
                    forks += 1
                elif cur is not None:
                    for c in e.get("calls", []):
                        if c.get("c") == "tx":
                            groups.setdefault(cur, set()).add((c["rf"]["freq"], c["rf"]["sf"], c["rf"]["bw"]))
                    cur = None
    sizes = sorted(len(v) for v in groups.values())
    return {"rng_enumeration": {"checkpointed_states": len(groups), "forked_transmissions": forks,
                                "distinct_channel_choices_per_state": {"min": sizes[0] if sizes else 0, "max": sizes[-1] if sizes else 0,
                                                                        "mean": round(sum(sizes) / len(sizes), 2) if sizes else 0},
                                "rule": "at the last two sends of every history the device is re-created, the prefix re-executed silently and the send repeated once per possible first draw (16 for the dynamic plans, 64 for the fixed plans)"}}


def run():
    t = core.tier() == "thorough"
    return macfam.run(PID, [[f"hist={40 if t else 4}", f"steps={70 if t else 45}", "profile=tx"],
                            # single-channel walk: every channel index once the only enabled one; the transmission must use it
                            ["hist=2", "profile=onlych"] + ([] if t else ["fronts=nb,async"])],
        'transmission on an illegal channel / data rate / power',
        "single-channel walk (every channel index once the only enabled one, ascending and descending: the transmission must use it) plus seeded random histories (9 regions x 4 (max power, gain) boards x join-bias settings) with CFLists, LinkADRReq, NewChannelReq, ADR back-off; every tx call's frequency, data rate and power is checked against Mac!TxChoices / MaxTxPower computed from the specification's own channel plan",
        macfam.COMMON_ASSUMPTIONS, extra=[choice_stats,
            # beyond the default build: the uplinks the remote multicast set-up handler transmits on its own (feature `multicast`)
            mcdata.extra(PID)])


def replay(path):
    with open(path) as f:
        if json.load(f).get("mc"):
            return mcdata.replay(PID, path)
    return macfam.replay(PID, path)
