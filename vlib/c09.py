"""C09 (MAC family: MacTrace.tla)."""
from . import macfam, core
PID = "C09"


def run():
    t = core.tier() == "thorough"
    return macfam.run(PID, [f"hist={40 if t else 4}", f"steps={70 if t else 45}", "profile=tx"],
        'transmission on an illegal channel / data rate / power',
        "seeded random histories (9 regions x 4 (max power, gain) boards x join-bias settings) with CFLists, LinkADRReq, NewChannelReq, ADR back-off; every tx call's frequency, data rate and power is checked against Mac!TxChoices / MaxTxPower computed from the specification's own channel plan",
        macfam.COMMON_ASSUMPTIONS)


def replay(path):
    return macfam.replay(PID, path)
