"""C03 - parsing arbitrary bytes is total, bounds-safe and terminating
(MacCmds.tla Items / WellFormed, Codec.tla StructOk; CmdTrace.tla)."""
import glob, json, os
from . import core, cmdfam, purefn

PID = "C03"
WHAT = "parser / iterator result differs from MacCmds.tla (or panic / non-termination)"


def _count(traces):
    """evaluations = byte strings presented to a parser/iterator; distinct non-trivial cases by the rule below."""
    n_events = 0
    kinds = {}
    evaluations = 0
    distinct = set()
    panics = nonterm = 0
    srcs = {}
    for t in traces:
        with open(t) as f:
            for line in f:
                e = json.loads(line)
                n_events += 1
                k = e["ev"]
                kinds[k] = kinds.get(k, 0) + 1
                if k == "items":
                    evaluations += 1
                    srcs[e["src"]] = srcs.get(e["src"], 0) + 1
                    panics += len(e["panics"])
                    nonterm += e["nonterm"]
                    out = e["out"]
                    trivial = len(e["in"]) == 0 or (len(out) == 1 and out[0][0] == 0 and out[0][1] == 0)
                    if not trivial:
                        distinct.add((k, e["set"], json.dumps(out)))
                elif k == "exh":
                    panics += e["panics"]
                    nonterm += e["nonterm"]
                    for mid, runs in e["rows"]:
                        evaluations += 256
                        for start, out in runs:
                            if not (len(out) == 1 and out[0][0] == 0 and out[0][1] == 0 and len(e["prefix"]) + (mid >= 0) == 0):
                                distinct.add((k, e["set"], tuple(e["prefix"]), mid, start))
                elif k == "fexh":
                    panics += e["panics"]
                    for mid, runs in e["rows"]:
                        evaluations += 256
                    distinct.add((k, tuple(e["prefix"])))
                elif k == "frame":
                    evaluations += 1
                    panics += len(e["panics"])
                    distinct.add((k, len(e["bytes"]), e["cls"], e["data_ok"], e["jr_ok"], e["ja_ok"],
                                  e["bytes"][0] >> 5 if e["bytes"] else -1, e["bytes"][5] & 15 if len(e["bytes"]) > 5 else -1))
                elif k == "payload_new":
                    evaluations += 1
                    panics += len(e["panics"])
                    distinct.add((k, e["set"], e["name"], len(e["in"]), e["ok"], e["in"][0] & 15 if e["in"] else -1))
    return n_events, kinds, evaluations, len(distinct), panics, nonterm, srcs


def run():
    rep = core.Report(PID)
    wd = core.workdir(PID)
    mc = cmdfam.design_check(PID)
    cases, ncases, gen = cmdfam.gen_cases(PID, wd)
    out = core.run_vh("cmds_items", wd, shards=core.NCPU, extra=[f"cases={cases}"])
    stats = core.kv(out)
    traces = sorted(glob.glob(os.path.join(wd, "items.*.ndjson")))
    res, bad, sigs = cmdfam.validate(PID, traces, wd)
    for tr, ln, ev, mm in bad:
        rep.violation({"property": PID, "event": ev, "mismatch": [m[:1200] for m in mm[:4]]}, WHAT + ": " + cmdfam.summ(ev, mm))
    known, foreign = cmdfam.report_known(rep, res, sigs)
    states, gen_states, accepted = purefn.totals(res)
    n_events, kinds, evaluations, distinct, panics, nonterm, srcs = _count(traces)
    thorough = core.tier() == "thorough"
    sample = [e for e in core.read_events(traces[0], 400) if e["ev"] == "items" and len(e["out"]) >= 2][:3]
    cov = {
        "states": states + mc["distinct"] + gen["distinct"], "transitions": gen_states + mc["generated"] + gen["generated"],
        "traces_validated_against_impl": accepted,
        "evaluations": evaluations, "distinct_nontrivial": distinct,
        "rule": "one evaluation = one byte string run through one command-stream iterator to exhaustion (every accessor of "
                "every yielded command called under catch_unwind) or through the four frame-parser entry points, or one "
                "XPayload::new call; strings come from (a) the spec-derived enumeration of CmdCases.tla (every CID 0..255 x "
                "every truncation point per the command's length rule x {alone, + valid command, + unknown CID}, wildcards "
                "filled random/0x00/0xFF), (b) exhaustive short strings, (c) seeded mutation of valid streams/frames and random "
                "strings of every length 0..255, (d) payload constructors at every length 0..34. distinct = distinct "
                "(set, yielded item list) for streams (excluding the empty string and a lone unknown first CID), distinct "
                "(set, prefix, run of the last octet with one outcome) for the exhaustive strings, distinct "
                "(length, classes, MType, FOptsLen) for frames, distinct (command, length, outcome, mask) for constructors",
        "event_kinds": kinds, "item_events_by_driver": srcs,
        "enumeration_cases_from_spec": ncases,
        "harness_summary": stats,
        "panics_observed": panics, "nonterminating_iterations": nonterm,
        "known_deviation_events": known, "other_open_deviation_events": foreign,
        "samples": [purefn.trim(e, 24) for e in sample] or [purefn.trim(e, 24) for e in core.read_events(traces[0], 2)],
        "exhaustive": False,
        "exhaustive_parts": ("all byte strings of length <= 3 for the six iterators and the frame parsers" if thorough else
                             "all byte strings of length <= 2 for the six iterators and the frame parsers; length 3: a seeded "
                             "sample of (b0,b1) prefixes, each with all 256 last octets"),
        "explanation": "the overall space (strings up to 255 bytes) is sampled; only the short-string sub-space named in "
                       "exhaustive_parts is enumerated completely (run-length encoded by the recorder over the last octet, "
                       "expanded and checked octet by octet by TLC)",
    }
    return rep.finish("model_checking", cov, cmdfam.TRUSTED + [
        "frame parsers: only totality and the accept/reject class are checked here (Codec!StructOk, lengths 23 / 17,33, MHDR); "
        "field values of accepted frames are C02's subject",
        "XPayload::new may refuse data longer than a fixed-length payload (the library demands equality); it must refuse "
        "shorter data and a returned view must be exactly one whole payload",
        "mutation is seeded random, not coverage-guided (no coverage instrumentation is available offline)",
    ])


def replay(path):
    return cmdfam.replay(PID, path)
