"""C12 (MAC family: MacTrace.tla)."""
from . import macfam, core
PID = "C12"


def run():
    t = core.tier() == "thorough"
    return macfam.run(PID, [f"hist={12 if t else 3}", f"steps={400 if t else 120}", "profile=adr"],
        'uplink header bits or ADR back-off deviate from the history',
        "seeded random histories with few downlinks (so the ADR counter reaches the 64/96/128.. thresholds), ADR toggles, data-rate overrides, confirmed/unconfirmed downlinks; every uplink's MType/DevAddr/ADR/ADRACKReq/ACK bits are decoded from the transmitted bytes and compared with Mac!UplinkFields; the data rate after every call with Mac!AfterRx2Complete",
        macfam.COMMON_ASSUMPTIONS, mc=[("MCAdr.tla", "MCAdr.cfg", {"workers": 8}),
            # the same exploration with the REAL constants (ADR_ACK_LIMIT 64, ADR_ACK_DELAY 32; frame counters hidden by a VIEW)
            ("MCAdr.tla", "MCAdrReal.cfg", {"workers": 6}), ("MCAdr.tla", "MCAdrRealIN.cfg", {"workers": 6})])


def replay(path):
    return macfam.replay(PID, path)
