"""C08 (MAC family: MacTrace.tla)."""
from . import macfam, core, mcreplay, mcdata
PID = "C08"


def run():
    t = core.tier() == "thorough"
    return macfam.run(PID, [[f"hist={40 if t else 4}", f"steps={70 if t else 45}", "profile=cmds"],
                            # the window walk of C10: it carries the define / map / redefine sequences on one channel
                            ["hist=1", "profile=rxwin", f"stride={1 if t else 3}"]],
        'MAC command answer and effect disagree (or order/multiplicity/stickiness wrong)',
        'seeded random histories where nearly every uplink is answered by an authentic Class A downlink carrying a MAC-command stream (LinkADRReq blocks of 1..n with DR/TXPower/ChMaskCntl/mask drawn from boundary+random values, RXParamSetupReq, RXTimingSetupReq, NewChannelReq, DlChannelReq, DevStatusReq, ignored and malformed commands) in FOpts or port 0; answers in the next uplinks and the snapshot after every downlink are compared',
        macfam.COMMON_ASSUMPTIONS,
        mc=([("MCMacCmd.tla", "MCMacCmd.cfg", {"workers": 12, "timeout": 3000}), ("MCMacCmd.tla", "MCMacCmdUS.cfg", {"workers": 12, "timeout": 3000})] if t
            else [("MCMacCmd.tla", "MCMacCmd1.cfg", {"workers": 8})]),
        # specification -> implementation: one behaviour per reachable design state, executed on the real devices
        extra=[mcreplay.extra(PID, [("MCMacCmdGen2.cfg", "EU868"), ("MCMacCmdGenUS2.cfg", "US915")] if t
                              else [("MCMacCmdGen1.cfg", "EU868"), ("MCMacCmdGenUS1.cfg", "US915")]),
               # beyond the default build: the remote multicast set-up handler (cargo feature `multicast`, FPort 200) under McTrace.tla
               mcdata.extra(PID)])


def replay(path):
    import json
    with open(path) as f:
        if json.load(f).get("mc"):
            return mcdata.replay(PID, path)
    return macfam.replay(PID, path)
