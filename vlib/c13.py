"""C13 - SX126x/SX127x drivers emit the same SPI bytes as Semtech's reference driver
(Sx126xWire.tla, Sx127xWire.tla, WireTrace.tla; both lora-phy and SWL2001 are validated against the specification)."""
import glob, json, os
from . import core, purefn, wirefam

PID = "C13"
# operation -> recorder group (for replays)
GROUP = {"sleep": "sleep", "standby": "standby", "tx_start": "tx_start", "cw": "tx_start", "set_tx": "tx_start", "wakeup": "wakeup",
         "rf_freq": "rf_freq", "cal_image": "cal_image", "cal_img": "cal_image", "cal_img_mhz": "cal_image", "mod_params": "mod_params",
         "pkt_params": "pkt_params", "sync_word": "sync_word", "sync_word_rmw": "sync_word", "sync_word8": "sync_word",
         "buffer_base": "buffer", "write_buffer": "buffer", "irq_params": "irq", "irq_process": "irq", "dio_irq": "irq", "clear_irq": "irq",
         "get_irq_status": "irq", "irq_mask": "irq", "rx_start": "rx_start", "stop_timer": "rx_start", "symb_timeout": "rx_start",
         "rx_gain": "rx_start", "set_rx": "rx_start", "cad_start": "cad_start", "cad_params": "cad_start", "set_cad": "cad_start",
         "pkt_status": "reads", "rssi_inst": "reads", "rx_buffer_status": "reads", "read_buffer": "reads", "fetch": "reads",
         "tx_power": "tx_power", "pa_cfg": "tx_power", "tx_params": "tx_power", "tx_clamp": "tx_power", "init": "init",
         "dio2_rf_switch": "init", "pkt_type": "init", "retention_add": "init", "reg_mode": "init", "clear_device_errors": "init",
         "tcxo_ctrl": "init", "calibrate": "init"}


def _fam(chip):
    return "sx127x" if chip in ("sx1276", "sx1272") else "sx126x"


def _cmd_for(ev):
    grp = GROUP.get(ev["op"], ev["op"])
    if _fam(ev["chip"]) == "sx127x" and grp in ("standby", "cad_start"):
        grp = {"standby": "sleep", "cad_start": "tx_start"}[grp]
    chips = ev["chip"] if ev["drv"] == "lora-phy" else ev["chip"] + ",sx1262"
    return "wire", [f"fam={_fam(ev['chip'])}", f"chips={chips}", f"ops={grp}"]


def run():
    rep = core.Report(PID)
    wd = core.workdir(PID)
    out = core.run_vh("wire", wd, shards=core.NCPU)
    traces = sorted(glob.glob(os.path.join(wd, "wire.*.ndjson")))
    res, bad, sigs = wirefam.validate(PID, traces, wd, xmx="4g")
    ref_bad = [b for b in bad if b[2] and b[2].get("drv") == "reference"]
    if ref_bad:
        for tr, ln, ev, mm in ref_bad[:5]:
            core.log(f"reference trace rejected by the specification: {ev['chip']}/{ev['op']}: {mm[0][:600]}")
        raise core.ToolError(f"{len(ref_bad)} reference-driver events are rejected by the wire specification: the specification is wrong")
    for tr, ln, ev, mm in bad:
        slim = {k: v for k, v in ev.items() if k != "cases"}
        rep.violation({"property": PID, "replay_event": slim, "mismatch": [m[:1200] for m in mm[:4]]},
                      f"lora-phy {ev['chip']} {ev['op']} differs from the reference behaviour: {mm[0][:320]}")
    known = wirefam.report_known(rep, res, sigs)
    states, gen, accepted = wirefam.totals(res)
    per = {}
    distinct = set()
    samples = {}
    n = 0
    for e in wirefam.events(traces):
        k = f"{e['drv']}/{e['chip']}/{e['op']}"
        per[k] = per.get(k, 0) + len(e["cases"])
        for c in e["cases"]:
            n += 1
            # the prior register contents are part of the case for read-modify-write operations of the command-based chips;
            # for the register-based chips the whole primed register file would make every case trivially distinct: use the arguments
            pr = tuple(map(tuple, c["p"])) if _fam(e["chip"]) == "sx126x" else ()
            distinct.add((e["drv"], e["chip"], e["op"], tuple(c["a"]), pr, len(c["d"])))
        if (e["drv"], e["op"]) not in samples and len(samples) < 40:
            samples[(e["drv"], e["op"])] = purefn.trim({"drv": e["drv"], "chip": e["chip"], "op": e["op"], "case": dict(e["cases"][0], p=e["cases"][0]["p"][:4])}, 10)
    ops = sorted({k.split("/", 2)[2] for k in per})
    thorough = core.tier() == "thorough"
    cov = {
        "states": states, "transitions": gen, "traces_validated_against_impl": accepted,
        "evaluations": n, "distinct_nontrivial": len(distinct),
        "rule": "one evaluation = one operation call with one parameter tuple (and primed prior register contents) on one driver "
                "(lora-phy or SWL2001) whose complete SPI transaction list is compared by TLC with the specification operator "
                "(SX126x: byte-identical transaction list; SX127x: register-file effect on owned fields, FIFO stream, untouched rest); "
                "distinct = distinct (driver, chip, operation, arguments[, prior registers], payload length)",
        "cases_per_driver_chip_op": per, "operations": ops, "known_deviation_matches": known,
        "reference_events_rejected": 0,
        "clear_device_errors_with_surplus_trailing_nop": sum(1 for r in res for t in r["info"] if "surplus trailing NOPs" in t),
        "samples": [samples[k] for k in sorted(samples)][:6],
        "exhaustive": False,
        "explanation": ("thorough: all SF x BW x CR x LDRO x 6 prior TxModulation bytes; packet parameters 11 preambles x header/CRC/IQ "
                        "x all 256 payload lengths; all 65536 sync words; every 100 Hz of the LoRaWAN bands on the SX1262 (both drivers), every 1 kHz on SX1261/SX1276/SX1272, + 10 kHz stride 137-1020 MHz; "
                        "all power requests x 4 TxClamp priors x 4 SX126x variants / 2 SX127x chips x both PA paths; symbol timeouts 0..1100 "
                        "+ stride; random prior register files for every SX127x case" if thorough else
                        "quick: all SF x BW x CR x LDRO x 2 priors; 6 preambles x flags x 12 payload lengths; 456 sync words; LoRaWAN channel "
                        "grids + 100 kHz stride 137-1020 MHz; all power requests; symbol timeouts 0..260 (SX126x) / 0..40 + stride (SX127x)"),
    }
    return rep.finish("model_checking", cov, [
        "Sx126xWire.tla / Sx127xWire.tla are written from the data sheets (command set, register tables, chapter 15 limitations, SX1276 "
        "errata 2.1/2.3) and SWL2001's sx126x.c / sx127x.c; every reference-driver recording must be accepted by them (otherwise the "
        "run is a tool error), so the oracle is pinned by the reference over the same parameter space as the driver under test",
        "SX126x: 'same bytes' = the same list of transactions, each transaction being all bytes clocked out (NOPs for reads), i.e. the "
        "canonical form of the repository's comparison tests (trimmed write bytes + total length) without loss",
        "SX127x: the two drivers factor register traffic differently (bursts, shadow copies), as the repository's own tests state; the "
        "comparison is on the chip-visible effect: fields an operation owns must hold the specified value, every other bit keeps its "
        "primed content, except documented per-driver policy bits (RegOpMode[6:3], RegOcp, RegLna, unused MaxPower bits, DIO mapping "
        "written from the reference's shadow copy, AgcAutoOn in RegModemConfig3, interrupt masks beyond what a mode needs)",
        "values lora-phy chooses where the data sheet gives none are pinned to its documented sources: CAD detPeak = SF+13 / detMin = 10 "
        "(Semtech CAD guide), ramp 40 us before TX and 200/250 us at start-up; image calibration outside the five bands of table 9-2 "
        "is only checked for well-formedness",
        "start-up with DC-DC regulator and TCXO (SetRegulatorMode, ClearDeviceErrors, SetDio3AsTcxoCtrl with the 10 ms board delay, "
        "Calibrate(all)) is compared for all 8 TCXO voltages x both regulator modes x 4 chip variants; lora-phy clocks ClearDeviceErrors "
        "with one more NOP than the data sheet frame / the reference (07 00 00 00 vs 07 00 00): for this parameterless command the "
        "comparison is 'up to surplus trailing NOPs' (chip state does not depend on how many status bytes the host clocks out); the "
        "number of such cases is reported as clear_device_errors_with_surplus_trailing_nop",
        "operations without a reference counterpart on the wire (SX127x packet fetch, SX127x image calibration, LR11xx) are not compared",
    ])


def replay(path):
    with open(path) as f:
        r = json.load(f)
    return wirefam.replay_events(PID, [r["replay_event"]], _cmd_for)
