"""C15 - LDRO decided identically everywhere (Modulation.tla / ModTrace.tla), exhaustive over 8 SF x 10 BW."""
import glob, json, os
from . import core, purefn

PID = "C15"


def _go(pid, extra=()):
    wd = core.workdir(pid)
    out = core.run_vh("ldro", wd, shards=1, extra=list(extra))
    traces = sorted(glob.glob(os.path.join(wd, "ldro.*.ndjson")))
    res, bad = purefn.validate(pid, "ModTrace.tla", "ModTrace.cfg", traces)
    return core.kv(out)["events"], traces, res, bad


def run():
    rep = core.Report(PID)
    n, traces, res, bad = _go(PID)
    for tr, ln, ev, mm in bad:
        rep.violation({"property": PID, "vh": ["ldro", "only=%d,%d" % (ev["sf"], ev["bw"])], "event": ev, "mismatch": mm[:3]},
                      f"LDRO {ev.get('impl','all')}/{ev.get('what','agreement')} for SF{ev['sf']} bw#{ev['bw']}: {mm[0][:160]}")
    states, gen, accepted = purefn.totals(res)
    evs = core.read_events(traces[0])
    pairs = {(e["sf"], e["bw"]) for e in evs}
    decided = [e for e in evs if e["ev"] == "ldro" and e["supported"] == 1]
    cov = {
        "states": states, "transitions": gen, "traces_validated_against_impl": accepted,
        "evaluations": len(decided), "distinct_nontrivial": len({(e["impl"], e["what"], e["sf"], e["bw"]) for e in decided}),
        "rule": "one evaluation = one implementation's decision (or the LDRO bit decoded from the SPI bytes it writes) "
                "for one (SF,BW) pair the chip supports; distinct by (implementation, decision|written, SF, BW)",
        "pairs": len(pairs),
        "samples": [purefn.trim(e) for e in evs[:3]],
        "exhaustive": True,
        "explanation": "all 8 SF x 10 BW; implementations: airtime calculator, SX1262, SX1276, SX1272, LR1110; "
                       "decision from create_modulation_params and programmed bit from set_modulation_params",
    }
    return rep.finish("model_checking", cov, [
        "Rule: LDRO on iff 2^SF/BW >= 16.38 ms with the exact modem bandwidths; the one pair where nominal and exact "
        "bandwidth disagree (SF8 / 15.6 kHz) is a documented don't-care for the value but all implementations must still agree",
        "Register positions of the LDRO bit (SX126x SetModulationParams byte 4, SX1276 RegModemConfig3 bit 3, "
        "SX1272 RegModemConfig1 bit 0, LR11xx SetModulationParam byte 4) are taken from the datasheets",
    ])


def replay(path):
    with open(path) as f:
        r = json.load(f)
    n, traces, res, bad = _go(PID + "-replay", r["vh"][1:])
    for b in bad:
        print("REPLAY mismatch:", b[3][:2])
    print("REPLAY", "violation reproduced" if bad else "no violation")
    return 1 if bad else 0
