"""C10 (MAC family: MacTrace.tla)."""
from . import macfam, core
PID = "C10"


def run():
    t = core.tier() == "thorough"
    return macfam.run(PID, [f"hist={40 if t else 4}", f"steps={70 if t else 45}", "profile=mixed"],
        'receive window parameters or timing deviate',
        'seeded random histories; every RX1/RX2/RXC configuration and every timer value (nb TimeoutRequest, async Timer::at) is compared with the windows bound at TX time from Regions.tla (RX1 table, RX2 defaults/overrides, negotiated delays, lead time / offset)',
        macfam.COMMON_ASSUMPTIONS)


def replay(path):
    return macfam.replay(PID, path)
