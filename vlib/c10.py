"""C10 (MAC family: MacTrace.tla)."""
from . import macfam, core
import glob, json, os
PID = "C10"


def window_stats(rep, wd):
    """distinct (region, uplink modulation, RX1 modulation, RX2 modulation+frequency, RX1 delay) combinations observed"""
    combos = set()
    for t in glob.glob(os.path.join(wd, "run*", "mac.*.ndjson")):
        region = None
        with open(t) as f:
            for line in f:
                e = json.loads(line)
                if e["ev"] == "reset":
                    region = e["region"]
                if e["ev"] != "a_proc":
                    continue
                tx = [c for c in e["calls"] if c["c"] == "tx"]
                rx = [c for c in e["calls"] if c["c"] == "setup_rx" and c.get("mode") == "single"]
                at = [c["ms"] for c in e["calls"] if c["c"] == "at"]
                if tx and len(rx) >= 1:
                    k = (region, tx[0]["rf"]["sf"], tx[0]["rf"]["bw"], rx[0]["rf"]["sf"], rx[0]["rf"]["bw"], rx[0]["rf"]["freq"] != tx[0]["rf"]["freq"],
                         (rx[1]["rf"]["sf"], rx[1]["rf"]["bw"], rx[1]["rf"]["freq"]) if len(rx) > 1 else None, at[0] - tx[0]["ts"] if at else None)
                    combos.add(k)
    return {"window_combinations_observed": len(combos)}


def run():
    t = core.tier() == "thorough"
    return macfam.run(PID, [[f"hist={40 if t else 3}", f"steps={70 if t else 40}", "profile=mixed"],
                            ["hist=1", "profile=rxwin", f"stride={1 if t else 3}"]],
        'receive window parameters or timing deviate',
        'seeded random histories plus a systematic table walk (per region and front-end: ABP, then for every (uplink DR 0..15, RX1 offset 0..7) x RX2 DR x RxDelay x DlChannel mapping a downlink RXParamSetupReq+RXTimingSetupReq+LinkADRReq [+DlChannelReq] followed by observing uplinks, fixed plans walking over the channels by scripted draws; quick: every third tuple); every RX1/RX2/RXC configuration and every timer value (nb TimeoutRequest, async Timer::at) is compared with the windows bound at TX time from Regions.tla (RX1 table, RX2 defaults/overrides, negotiated delays, lead time / offset)',
        macfam.COMMON_ASSUMPTIONS, extra=[window_stats])


def replay(path):
    return macfam.replay(PID, path)
