"""Shared driver for 'pure function' properties: record -> shard -> TLC trace validation with
independent events (soft mismatches: every deviating event is reported)."""
import glob, json, os, re
from . import core

_LINE = re.compile(r'^<<\s*"MISMATCH",\s*(\d+),')


def validate(pid, module, cfg, traces, env=None, xmx="3g", timeout=3600):
    """Returns (results, bad) where bad = list of (trace, line, event, mismatch-text)."""
    res = core.validate_traces(module, cfg, traces, pid, env=env, xmx=xmx, timeout=timeout)
    bad = []
    for r in res:
        lines = {}
        for m in r["mismatches"]:
            mm = _LINE.match(m)
            if mm:
                lines.setdefault(int(mm.group(1)), []).append(m)
        if not r["accepted"] and not lines:
            lines[r.get("matched", 0) + 1] = ["trace rejected"]
        for ln in sorted(lines):
            bad.append((r["trace"], ln, core.nth_event(r["trace"], ln), lines[ln]))
    return res, bad


def totals(res):
    return (sum(r["distinct"] for r in res), sum(r["generated"] for r in res),
            sum(1 for r in res if r["accepted"] and not r["mismatches"]))


def trim(ev, maxlen=12):
    """Shorten long arrays in a sample event for the evidence file."""
    if isinstance(ev, dict):
        return {k: trim(v, maxlen) for k, v in ev.items()}
    if isinstance(ev, list):
        if len(ev) > maxlen:
            return [trim(x, maxlen) for x in ev[:maxlen]] + [f"... {len(ev)-maxlen} more"]
        return [trim(x, maxlen) for x in ev]
    return ev
