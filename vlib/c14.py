"""C14 - the PHY driver and the radio chip never disagree about the radio's state (PhyTrace.tla)."""
import glob, json, os, re
from . import core

PID = "C14"
_MM = re.compile(r'^<<\s*"MISMATCH",\s*(\d+),')
_KN = re.compile(r'^<<\s*"KNOWN",\s*(\d+),\s*"([^"]+)"')


def _open_sigs():
    p = os.path.join(core.ROOT, "known_findings.json")
    out = {}
    for k in json.load(open(p)).get("findings", []):
        if k.get("property") == PID and k.get("status") == "open" and k.get("signature"):
            out[k["signature"]] = k
    return out


def _history(trace, line):
    evs = core.read_events(trace, line)
    start = max(i for i, e in enumerate(evs) if e.get("first") == 1)
    return evs[start:]


def _validate(pid, traces, wd):
    sigs = _open_sigs()
    kf = os.path.join(wd, "known.json")
    with open(kf, "w") as f:
        json.dump(sorted(sigs), f)
    return core.validate_traces("PhyTrace.tla", "PhyTrace.cfg", traces, pid, env={"KNOWN": kf}), sigs


_REPLAY = re.compile(r'^<<"REPLAY", "(.*)">>\s*$')
_IRQ127 = {"tx": {1: 0x08, 512: 0x08}, "complete_rx": {2: 0x40, 512: 0x80}, "cad": {128: 0x04}}
_IRQLR = {"tx": {1: 0x04, 512: 0x400}, "complete_rx": {2: 0x08, 512: 0x400}, "cad": {128: 0x100}}
_IRQMAP = {"sx1276": _IRQ127, "sx1272": _IRQ127, "lr1110": _IRQLR}


def mc_behaviours(wd):
    """MCPhy.tla: the design-level clauses on every call sequence of the abstract driver + chip, and one call
    sequence per TRANSITION of that model; each is extended by a probe (prepare_for_tx, tx) that makes a driver which
    lost track of the chip start an operation, and executed on both chip families."""
    mc = core.model_check("MCPhy.tla", "MCPhy.cfg", PID, workers=4)
    if mc["violated"]:
        raise core.ToolError(f"MCPhy.cfg violated {mc['violated']}: the specification itself is wrong")
    gen = core.model_check("MCPhy.tla", "MCPhyGen.cfg", PID, workers=1, coverage=False)
    seqs = set()
    for line in gen["out"].splitlines():
        m = _REPLAY.match(line)
        if m:
            seqs.add(m.group(1).replace('\\"', '"'))
    seqs.discard("[]")
    hs = sorted(seqs)
    src = os.path.join(wd, "mcphy.ndjson")
    n = 0
    with open(src, "w") as f:
        for chip in ("sx1262", "sx1276", "sx1272", "lr1110"):
            for h in hs:
                steps = []
                for st in json.loads(h) + [{"call": "prep_tx", "irq": []}, {"call": "tx", "irq": [1]}]:
                    irq = [_IRQMAP.get(chip, {}).get(st["call"], {}).get(x, x) for x in st["irq"]]
                    steps.append({"call": st["call"], "irq": irq, "fault": -1, "cancel": False})
                f.write(json.dumps({"chip": chip, "steps": steps}) + "\n")
                n += 1
    d = os.path.join(wd, "mc")
    os.makedirs(d, exist_ok=True)
    core.run_vh("phymc", d, shards=core.NCPU, extra=[f"in={src}"])
    info = {"module": "MCPhy.tla", "design_states": mc["distinct"], "design_transitions": mc["generated"],
            "actions": mc["coverage"], "call_sequences_generated": len(hs), "histories_executed": n,
            "rule": "one call sequence per transition of the abstract driver + chip model (VIEW hides the history), each "
                    "followed by prepare_for_tx + tx, on the SX1262, the SX1276, the SX1272 and the LR1110"}
    return sorted(glob.glob(os.path.join(d, "phy.*.ndjson"))), info


def run():
    rep = core.Report(PID)
    wd = core.workdir(PID)
    t = core.tier() == "thorough"
    out = core.run_vh("phy", wd, shards=core.NCPU, extra=[f"depth={3 if t else 2}"], timeout=7200)
    info = core.kv(out)
    traces = sorted(glob.glob(os.path.join(wd, "phy.*.ndjson")))
    mtraces, mcinfo = mc_behaviours(wd)
    traces += mtraces
    res, sigs = _validate(PID, traces, wd)
    seen_known = {}
    nviol = 0
    for r in res:
        for k in r["known"]:
            m = _KN.match(k)
            if m and m.group(2) in sigs:
                seen_known[m.group(2)] = seen_known.get(m.group(2), 0) + 1
        lines = {}
        for m in r["mismatches"]:
            mm = _MM.match(m)
            if mm:
                lines.setdefault(int(mm.group(1)), []).append(m)
        if not r["accepted"] and not lines:
            lines[r.get("matched", 0) + 1] = ["trace rejected"]
        for ln in sorted(lines):
            nviol += 1
            if nviol > 40:
                continue
            hist = _history(r["trace"], ln)
            h = json.loads(hist[0]["hist"])
            chip, steps = h["chip"], h["steps"][:len(hist)]
            ev = hist[-1]
            rep.violation({"property": PID, "chip": chip, "steps": steps, "failing_event": ev, "mismatch": [x[:1200] for x in lines[ln][:3]]},
                          f"{chip} history {[s['call'] for s in steps]}: {lines[ln][0][:300]}")
    for sig, n in sorted(seen_known.items()):
        rep.known_finding(f"[{sigs[sig].get('id', 'S23')}] {sigs[sig]['line'][:300]} ({n} occurrences matched)")
    # coverage
    calls, outcomes = {}, set()
    nev = 0
    for tr in traces:
        for e in core.read_events(tr):
            nev += 1
            calls[e["call"]] = calls.get(e["call"], 0) + 1
            outcomes.add((e["call"], e.get("pre_mode"), e.get("res"), e.get("err"), tuple(e.get("irq", [])), e.get("fault", -1) >= 0, e.get("cancel")))
    cov = {
        "states": sum(r["distinct"] for r in res), "transitions": sum(r["generated"] for r in res),
        "traces_validated_against_impl": info.get("histories", 0),
        "evaluations": nev, "distinct_nontrivial": len(outcomes),
        "rule": "histories = all API call sequences of the given depth over {init, sleep(warm/cold), prepare_for_tx, tx, prepare_for_rx(single/continuous/duty), "
                "start_rx, complete_rx, rx_switch_channel, listen, prepare_for_cad, cad, set_lora_sync_word, continuous_wave} x interrupt outcomes {done, timeout, CRC/header error, "
                "preamble-then-done, spurious}; plus, for every prefix, a fault at EVERY bus event (SPI transfer, BUSY wait, DIO wait, reset, RF switch) of the last call "
                "and a dropped future at the droppable interrupt wait, followed by a recovery call; distinct = distinct (call, driver mode before, result, error, "
                "interrupt script, faulted, cancelled) tuples",
        "calls": calls, "depth": 3 if t else 2, "exhaustive": True, "spec_behaviours_replayed_into_impl": mcinfo,
        "samples": [[{k: e[k] for k in ("call", "pre_mode", "res", "err", "mode", "irq", "fault")} for e in core.read_events(traces[0], 4)]],
        "explanation": "exhaustive over the stated call/outcome alphabet up to the stated depth on an emulated SX1262 (DC-DC + TCXO board), an emulated SX1276 and SX1272 (TCXO, PA_BOOST) and an emulated LR1110 (DC-DC, TCXO, DIO RF switch, HP PA), each also behind the LoRaWAN radio adapter (PhyRxTx calls tx / setup_rx(single|continuous) / rx_single / rx_continuous / low_power, one level deeper because the alphabet is small); the SX1261 / STM32WL variants of the SX126x differ from the SX1262 only in PA tables and the DIO2 RF-switch option and are not recorded",
    }
    return rep.finish("model_checking", cov, [
        "the abstract SX126x, SX127x (SX1276 and SX1272 share the register map C14 looks at) and LR1110 in PhyTrace.tla (which command / RegOpMode value enters which mode, what a sleeping chip accepts, what survives warm/cold sleep or only a reset, how TxDone/RxDone/Timeout/CadDone end an operation) follow the datasheets; they are the trusted part",
        "a call that returns an error without a single bus event and without changing the driver's mode is a refusal, not a failed operation (clause 1 territory): chip and driver are where the previous call left them",
        "a fault is a single transient failure of one bus event; a fault on the very command that restores standby is not held against clause 4",
        "an error in continuous reception leaves the decision to the caller (documented API contract)",
    ])


def replay(path):
    with open(path) as f:
        r = json.load(f)
    rp = PID + "-replay"
    wd = core.workdir(rp)
    src = os.path.join(wd, "steps.json")
    with open(src, "w") as f:
        json.dump({"chip": r.get("chip", "sx1262"), "steps": r["steps"]}, f)
    core.run_vh("phyreplay", wd, extra=[f"in={src}"])
    traces = sorted(glob.glob(os.path.join(wd, "phy.*.ndjson")))
    res, sigs = _validate(rp, traces, wd)
    bad = [m for x in res for m in x["mismatches"]]
    for m in bad[:3]:
        print("REPLAY mismatch:", m[:400])
    print("REPLAY", "violation reproduced" if bad else "no violation")
    return 1 if bad else 0
