"""C11 (MAC family: MacTrace.tla)."""
from . import macfam, core
PID = "C11"


def run():
    t = core.tier() == "thorough"
    return macfam.run(PID, [f"hist={40 if t else 4}", f"steps={70 if t else 45}", "profile=join"],
        'join procedure deviates from the JoinAccept',
        "seeded random histories with OTAA joins: JoinRequest bytes vs Codec!JoinRequestBytes; JoinAccepts (random DLSettings, RxDelay 0..15, CFList type 0/1/RFU/none, wrong key, bit-flipped, truncated) in RX1, RX2 or never, re-joins from a joined state; session keys are derived by Codec.tla (two AES blocks) and compared with the device's session",
        macfam.COMMON_ASSUMPTIONS)


def replay(path):
    return macfam.replay(PID, path)
