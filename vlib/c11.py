"""C11 (MAC family: MacTrace.tla)."""
from . import macfam, core, mcreplay
PID = "C11"


def run():
    t = core.tier() == "thorough"
    return macfam.run(PID, [f"hist={40 if t else 4}", f"steps={70 if t else 45}", "profile=join"],
        'join procedure deviates from the JoinAccept',
        "seeded random histories with OTAA joins: JoinRequest bytes vs Codec!JoinRequestBytes; JoinAccepts (random DLSettings, RxDelay 0..15, CFList type 0/1/RFU/none, wrong key, bit-flipped, truncated) in RX1, RX2 or never, re-joins from a joined state; session keys are derived by Codec.tla (two AES blocks) and compared with the device's session",
        macfam.COMMON_ASSUMPTIONS,
        # design level: every sequence of <= 2 join attempts (accepted in RX1/RX2 with every JoinAccept of the alphabet,
        # or not accepted) with a parameter-changing request and uplinks in between
        mc=([("MCJoin.tla", "MCJoin.cfg", {"workers": 8}), ("MCJoin.tla", "MCJoinUS.cfg", {"workers": 8})] if t
            else [("MCJoin.tla", "MCJoinQ.cfg", {"workers": 8}), ("MCJoin.tla", "MCJoinUSQ.cfg", {"workers": 8})]),
        # specification -> implementation: the behaviours of MCJoin (kept apart by the previous accept and request,
        # which the design state does not depend on but an implementation might) executed on the real devices
        extra=[mcreplay.extra(PID, [("MCJoinGen2.cfg", "EU868"), ("MCJoinGenUS2.cfg", "US915")] if t
                              else [("MCJoinGen1.cfg", "EU868"), ("MCJoinGenUS1.cfg", "US915")],
                              module="MCJoin.tla", what="MCJoin")])


def replay(path):
    return macfam.replay(PID, path)
