"""Shared driver of the MAC-level properties (C04..C12, C20): random / enumerated histories on the real
device front-ends -> MacTrace.tla (Mac.tla + Regions.tla + Codec.tla) trace validation, plus the
exhaustive model-checking configs of the same operators."""
import glob, json, os, re, collections
from . import core

_LINE = re.compile(r'^<<\s*"MISMATCH",\s*(\d+),')
_KNOWN = re.compile(r'^<<\s*"KNOWN",\s*(\d+),\s*"([^"]+)"')


def open_signatures(pid):
    p = os.path.join(core.ROOT, "known_findings.json")
    sigs = {}
    if os.path.exists(p):
        for k in json.load(open(p)).get("findings", []):
            # every open MAC-level finding is a deviation the trace spec may follow (a history that runs
            # into it ends there); it is REPORTED only by the checks of the properties it violates
            if k.get("status") == "open" and k.get("signature"):
                k = dict(k, mine=(k.get("property") == pid or pid in k.get("also", [])))
                sigs[k["signature"]] = k
    return sigs


def history_of(trace, line):
    """Events of the history containing 1-based `line`, up to and including it."""
    evs = core.read_events(trace, line)
    starts = [i for i, e in enumerate(evs) if e["ev"] == "reset"]
    # (a watchdog event written while the recorder was re-executing a prefix silently has no recorded history
    # before it: it carries the whole op list itself)
    if evs and evs[-1].get("ev") == "watchdog" and evs[-1].get("ops_all") and (not starts or any(e.get("ev") == "watchdog" for e in evs[starts[-1]:-1])):
        return [evs[-1]]
    return evs[starts[-1]:] if starts else evs[-1:]


def ops_of(events):
    """The replayable op list of a history (scripted draws filled in from the recording)."""
    ops = []
    for e in events:
        if not e.get("opj"):
            continue
        op = json.loads(e["opj"])
        if "draws" in op and isinstance(e.get("draws"), dict):
            op["draws"] = [(d[0] << 16) | d[1] for d in e["draws"]["list"]]
        ops.append(op)
    return ops


def validate(pid, traces, wd, timeout=3600):
    sigs = open_signatures(pid)
    kf = os.path.join(wd, "known.json")
    with open(kf, "w") as f:
        json.dump(sorted(sigs), f)
    res = core.validate_traces("MacTrace.tla", "MacTrace.cfg", traces, pid, env={"KNOWN": kf}, timeout=timeout, xmx="4g")
    return res, sigs


def summarise(traces):
    n = hist = 0
    kinds = collections.Counter()
    distinct = set()
    for t in traces:
        with open(t) as f:
            for line in f:
                e = json.loads(line)
                n += 1
                if e["ev"] == "reset":
                    hist += 1
                    reg = (e["region"], e["front"], e["classc"])
                k = (e["ev"], e.get("kind", ""), (e.get("resp") or {}).get("k", ""))
                kinds["/".join(x for x in k if x)] += 1
                intents = []
                fr = e.get("frame") or {}
                if fr.get("intent"):
                    intents.append(fr["intent"].split(":")[0])
                for c in e.get("calls", []):
                    if c.get("intent"):
                        intents.append(c["intent"].split(":")[0])
                distinct.add((reg, k, tuple(intents), len((e.get("sess") or {}).get("pending", []))))
    return n, hist, kinds, len(distinct)


def sample_history(trace, maxev=6):
    out = []
    for e in core.read_events(trace, maxev):
        s = {k: e[k] for k in ("ev", "kind", "args", "resp", "region", "front") if k in e}
        if "calls" in e:
            s["calls"] = [{k: c[k] for k in ("c", "out", "rf", "pw", "ms", "intent") if k in c} for c in e["calls"]][:8]
        if e.get("frame"):
            s["frame_intent"] = e["frame"].get("intent")
        out.append(s)
    return out


def report(rep, pid, res, sigs, what, extra_fields=None):
    for r in res:
        for t in r["known"]:
            m = _KNOWN.match(t)
            if m and m.group(2) in sigs and sigs[m.group(2)]["mine"]:
                k = sigs[m.group(2)]
                rep.known_finding(f"[{k['id']}] {k['line'][:400]}")
        if r["accepted"]:
            continue
        line = r.get("matched", 0) + 1
        hist = history_of(r["trace"], line)
        ev = hist[-1]
        mm = [m for m in r["mismatches"] if _LINE.match(m) and int(_LINE.match(m).group(1)) == line] or r["mismatches"][-2:]
        head = hist[0]
        ops = ops_of(hist)
        wd_fields = {}
        if ev.get("ev") == "watchdog" and ev.get("ops_all"):
            # the call that never returned: replay the whole op list with the history's own RNG seed
            allops = json.loads(ev["ops_all"])
            if head.get("ev") != "reset":
                head = dict(allops[0], ev="reset")
                ops = allops
            wd_fields = {"hseed": ev.get("hseed", "")}
        rep.violation(dict({"property": pid, "ops": ops, "failing_event": {k: ev[k] for k in ev if k not in ("opj", "ops_all")},
                            "mismatch": [m[:1500] for m in mm[:4]]}, **dict(extra_fields or {}, **wd_fields)),
                      f"{what}: {head['region']}/{head['front']}{'/classC' if head['classc'] else ''} event {len(hist)} "
                      f"({ev['ev']} {ev.get('kind','')}): {(mm[0] if mm else 'trace rejected')[:260]}")


def run(pid, vh_args, what, rule, assumptions, mc=(), extra_cov=None, vh_cmd="mac", extra=()):
    rep = core.Report(pid)
    wd = core.workdir(pid)
    # vh_args: one argument list, or a list of argument lists (several generator runs, validated together)
    runs = vh_args if vh_args and isinstance(vh_args[0], (list, tuple)) else [vh_args]
    traces = []
    for i, args in enumerate(runs):
        d = os.path.join(wd, f"run{i}")
        os.makedirs(d, exist_ok=True)
        # a run may name its own harness subcommand: ["cmd=nbwalk", ...]
        cmd, args = (args[0][4:], args[1:]) if args and str(args[0]).startswith("cmd=") else (vh_cmd, args)
        core.run_vh(cmd, d, shards=core.NCPU, extra=list(args))
        traces += sorted(glob.glob(os.path.join(d, "mac.*.ndjson")))
    res, sigs = validate(pid, traces, wd)
    report(rep, pid, res, sigs, what)
    n, hist, kinds, distinct = summarise(traces)
    states = sum(r["distinct"] for r in res)
    gen = sum(r["generated"] for r in res)
    mcinfo = []
    for module, cfg, opts in mc:
        r = core.model_check(module, cfg, pid, **opts)
        states += r["distinct"]
        gen += r["generated"]
        mcinfo.append({"module": module, "cfg": cfg, "distinct": r["distinct"], "generated": r["generated"],
                       "depth": r["depth"], "coverage": r["coverage"], "wall_s": round(r["wall"], 1)})
        if r["violated"]:
            raise core.ToolError(f"design-level model check {cfg} violated {r['violated']}: the specification itself is wrong")
        zero = [a for a, c in r["coverage"].items() if c == 0]
        if zero:
            raise core.ToolError(f"model check {cfg}: actions never taken (vacuous): {zero}")
    extras = {}
    for fn in extra:
        d = fn(rep, wd)
        states += d.pop("_states", 0)
        gen += d.pop("_transitions", 0)
        n += d.pop("_evaluations", 0)
        distinct += d.pop("_distinct", 0)
        extras.update(d)
    rejected = sum(1 for r in res if not r["accepted"])
    cov = {
        "states": states, "transitions": gen,
        "traces_validated_against_impl": hist - rejected if hist >= rejected else 0,
        "evaluations": n, "distinct_nontrivial": distinct, "rule": rule,
        "event_kinds": dict(kinds.most_common(40)),
        "model_checking": mcinfo,
        "samples": [sample_history(traces[0])],
    }
    cov.update(extras)
    if extra_cov:
        cov.update(extra_cov)
    return rep.finish("model_checking", cov, assumptions)


def cert_signatures(pid):
    p = os.path.join(core.ROOT, "known_findings.json")
    sigs = {}
    for k in json.load(open(p)).get("findings", []):
        if k.get("status") == "open" and str(k.get("signature", "")).startswith("cert-"):
            sigs[k["signature"]] = dict(k, mine=(k.get("property") == pid))
    return sigs


def validate_cert(pid, traces, wd):
    sigs = cert_signatures(pid)
    kf = os.path.join(wd, "known_cert.json")
    with open(kf, "w") as f:
        json.dump(sorted(sigs), f)
    return core.validate_traces("CertTrace.tla", "CertTrace.cfg", traces, pid + "-cert", env={"KNOWN": kf}, xmx="3g"), sigs


def certification(pid):
    """extra for macfam.run: the certification build (cargo feature `certification`) under CertTrace.tla"""
    def fn(rep, wd):
        d = os.path.join(wd, "cert")
        os.makedirs(d, exist_ok=True)
        core.run_vh("certwalk", d, shards=core.NCPU, cert=True,
                    extra=["regions=EU868,US915"] if core.tier() == "thorough" else [])
        traces = sorted(glob.glob(os.path.join(d, "mac.*.ndjson")))
        res, sigs = validate_cert(pid, traces, d)
        seen = {}
        nviol = 0
        for r in res:
            for t in r["known"]:
                m = _KNOWN.match(t)
                if m and m.group(2) in sigs:
                    seen[m.group(2)] = seen.get(m.group(2), 0) + 1
            lines = sorted({int(_LINE.match(m).group(1)) for m in r["mismatches"] if _LINE.match(m)})
            if not r["accepted"] and not lines:
                lines = [r.get("matched", 0) + 1]
            for ln in lines:
                nviol += 1
                if nviol > 20:
                    continue
                hist = history_of(r["trace"], ln)
                ev = hist[-1]
                mm = [m for m in r["mismatches"] if _LINE.match(m) and int(_LINE.match(m).group(1)) == ln]
                rep.violation({"property": pid, "cert": True, "ops": ops_of(hist), "failing_event": {k: ev[k] for k in ev if k != "opj"},
                               "mismatch": [m[:1500] for m in mm[:4]]},
                              f"certification build: {hist[0]['region']}/{hist[0]['front']}{'/classC' if hist[0]['classc'] else ''} "
                              f"event {len(hist)}: {(mm[0] if mm else 'trace rejected')[:260]}")
        by_front = {}
        for sig, n in sorted(seen.items()):
            if sigs[sig]["mine"]:
                by_front.setdefault(sigs[sig]["line"], []).append(sig.rsplit(":", 1)[-1])
        for line, cids in by_front.items():
            rep.known_finding(f"[S33] {line[:330]} (commands: {', '.join(cids)})")
        # behaviour conformance: the histories that do not end in a panic are held to Mac.tla / MacTrace.tla, which
        # model the handler (command walk, ADR bit, frame-type override, LinkCheckReq queued, answers transmitted
        # at once on FPort 224 with legal channel / data rate / power, counters, what reaches the application)
        bd = os.path.join(d, "behaviour")
        os.makedirs(bd, exist_ok=True)
        kept = 0
        for t in traces:
            out, histl = [], []

            def flush():
                nonlocal kept
                if histl:
                    last = json.loads(histl[-1])
                    if (last.get("resp") or {}).get("k") not in ("Panic", "Hang"):
                        out.extend(histl)
                        kept += 1
            with open(t) as f:
                for line in f:
                    if json.loads(line)["ev"] == "reset":
                        flush()
                        histl = []
                    histl.append(line)
            flush()
            with open(os.path.join(bd, os.path.basename(t)), "w") as f:
                f.write("".join(out))
        btraces = sorted(glob.glob(os.path.join(bd, "mac.*.ndjson")))
        bres, bsigs = validate(pid, btraces, bd)
        report(rep, pid, bres, bsigs, "certification build: behaviour differs from Mac.tla's model of the handler",
               extra_fields={"cert": True})
        # the remote multicast setup handler (cargo feature `multicast`, FPort 200) under the same robustness clauses
        md = os.path.join(wd, "mcast")
        os.makedirs(md, exist_ok=True)
        core.run_vh("mcwalk", md, shards=core.NCPU, cert=True,
                    extra=["regions=EU868,US915"] if core.tier() == "thorough" else [])
        mtraces = sorted(glob.glob(os.path.join(md, "mac.*.ndjson")))
        mres, _ = validate_cert(pid, mtraces, md)
        mviol = 0
        for r in mres:
            lines = sorted({int(_LINE.match(m).group(1)) for m in r["mismatches"] if _LINE.match(m)})
            if not r["accepted"] and not lines:
                lines = [r.get("matched", 0) + 1]
            for ln in lines:
                mviol += 1
                if mviol > 20:
                    continue
                hist = history_of(r["trace"], ln)
                mm = [m for m in r["mismatches"] if _LINE.match(m) and int(_LINE.match(m).group(1)) == ln]
                rep.violation({"property": pid, "cert": True, "ops": ops_of(hist), "failing_event": {k: hist[-1][k] for k in hist[-1] if k != "opj"},
                               "mismatch": [m[:1500] for m in mm[:4]]},
                              f"multicast build: {hist[0]['region']}/{hist[0]['front']}{'/classC' if hist[0]['classc'] else ''} "
                              f"event {len(hist)}: {(mm[0] if mm else 'trace rejected')[:260]}")
        mn, mhist, _, mdistinct = summarise(mtraces)
        n, hist, kinds, distinct = summarise(traces)
        n, hist, distinct = n + mn, hist + mhist, distinct + mdistinct
        return {"_states": sum(r["distinct"] for r in res) + sum(r["distinct"] for r in bres) + sum(r["distinct"] for r in mres),
                "_transitions": sum(r["generated"] for r in res) + sum(r["generated"] for r in bres),
                "_evaluations": n, "_distinct": distinct,
                "certification_build": {"histories": hist, "events": n, "module": "CertTrace.tla (all histories) + MacTrace.tla (behaviour of the non-panicking ones)",
                                        "histories_held_to_the_behaviour_model": kept,
                                        "multicast_setup_histories": mhist,
                                        "known_signatures_matched": seen,
                                        "rule": "device built with cargo feature `certification`: every TS009 command (well-formed, malformed, unknown, "
                                                "several per frame, EchoPayloadReq up to 242 octets) as the FPort-224 payload of an authentic downlink in "
                                                "RX1 / RX2 / Class C listening, on nb, async and async+ClassC, followed by further uplinks; clauses: no "
                                                "panic or hang, every transmitted frame a well-formed uplink with a valid MIC and a strictly increasing "
                                                "counter, the device still transmits afterwards. The same clauses for the remote multicast setup "
                                                "handler (feature `multicast`, FPort 200): every TS005 setup command, well-formed, truncated, unknown and "
                                                "repeated up to 242 times in one frame, on the async front-end with and without Class C"}}
    return fn


def replay(pid, path):
    with open(path) as f:
        r = json.load(f)
    rp = pid + "-replay"
    wd = core.workdir(rp)
    src = os.path.join(wd, "ops.json")
    with open(src, "w") as f:
        json.dump({"ops": r["ops"], "hseed": r.get("hseed", "")}, f)
    core.run_vh("macreplay", wd, extra=[f"in={src}"], cert=bool(r.get("cert")))
    traces = sorted(glob.glob(os.path.join(wd, "mac.*.ndjson")))
    if r.get("cert"):
        res, sigs = validate_cert(rp, traces, wd)
        bad = [m for x in res for m in x["mismatches"]]
        last = core.read_events(traces[0])[-1]
        if (last.get("resp") or {}).get("k") not in ("Panic", "Hang"):
            bres, _ = validate(rp, traces, wd)
            bad += [m for x in bres if not x["accepted"] for m in (x["mismatches"] or ["trace rejected"])]
        for m in bad[:3]:
            print("REPLAY mismatch:", m[:400])
        print("REPLAY", "violation reproduced" if bad else "no violation")
        return 1 if bad else 0
    res, sigs = validate(rp, traces, wd)
    # known findings of the property itself still apply in a replay
    bad = [x for x in res if not x["accepted"]]
    for x in bad:
        print("REPLAY mismatch:", [m[:400] for m in x["mismatches"][-2:]])
    print("REPLAY", "violation reproduced" if bad else "no violation")
    return 1 if bad else 0


COMMON_ASSUMPTIONS = [
    "Mac.tla states the intended end-device behaviour (DESIGN Appendix B); Regions.tla the regional tables (disputed entries take the laxer reading, DESIGN 7.1); Codec.tla decides authenticity/freshness of every delivered frame",
    "the scripted radios/timer/RNG honour the PhyRxTx contracts; histories are seeded-random, not exhaustive",
    "answer status bits are taken from the device's answers; the spec demands consistency between answer and effect and refusal of the closed list of invalid requests (DESIGN 7.3, 7.11)",
]
