"""Shared driver of the SPI-level properties (C13, C17, C18): record the real drivers (and the SWL2001 reference)
over an emulated SPI bus -> WireTrace.tla (Sx126xWire.tla, Sx127xWire.tla, RxFetch.tla) trace validation with
independent events and soft mismatches."""
import glob, json, os, re
from . import core, purefn

_KNOWN = re.compile(r'^<<\s*"KNOWN",\s*(\d+),\s*"([^"]+)"')
_LINE = re.compile(r'^<<\s*"MISMATCH",\s*(\d+),')


def open_signatures(pid):
    """Open findings of this property in known_findings.json (the only authority): deviations the trace spec may
    match instead of the intended behaviour.  `fixed' entries are documentation; their deviation is NOT allowed."""
    pid = pid.replace("-replay", "")
    sigs = {}
    p = os.path.join(core.ROOT, "known_findings.json")
    if os.path.exists(p):
        for k in json.load(open(p)).get("findings", []):
            if k.get("status") == "open" and k.get("signature") and (k.get("property") == pid or pid in k.get("also", [])):
                sigs.setdefault(k["signature"], k)
    return sigs


def validate(pid, traces, wd, timeout=3600, xmx="3g"):
    sigs = open_signatures(pid)
    kf = os.path.join(wd, "known.json")
    with open(kf, "w") as f:
        json.dump(sorted(sigs), f)
    res = core.validate_traces("WireTrace.tla", "WireTrace.cfg", traces, pid, env={"KNOWN": kf}, timeout=timeout, xmx=xmx)
    bad = []
    for r in res:
        lines = {}
        for m in r["mismatches"]:
            mm = _LINE.match(m)
            if mm:
                lines.setdefault(int(mm.group(1)), []).append(m)
        if not r["accepted"] and not lines:
            lines[r.get("matched", 0) + 1] = ["trace rejected"]
        for ln in sorted(lines):
            bad.append((r["trace"], ln, core.nth_event(r["trace"], ln), lines[ln]))
    return res, bad, sigs


def report_known(rep, res, sigs):
    """KNOWN tuples printed by the trace spec -> KNOWN-FINDING lines (one per signature, with a count)."""
    seen = {}
    for r in res:
        for t in r["known"]:
            m = _KNOWN.match(t)
            if m:
                seen.setdefault(m.group(2), []).append(t)
    for sig, ts in sorted(seen.items()):
        k = sigs.get(sig, {})
        rep.known_finding(f"[{k.get('id', sig)}] {k.get('line', sig)[:400]} (matched in {len(ts)} places of the recorded traces, e.g. {ts[0][:200]})")
    return {s: len(t) for s, t in seen.items()}


def totals(res):
    return purefn.totals(res)


def events(traces):
    for t in traces:
        with open(t) as f:
            for line in f:
                yield json.loads(line)


def replay_events(pid, evs, cmd_for):
    """Re-record the inputs of the given events on the current tree and validate again."""
    rp = pid + "-replay"
    wd = core.workdir(rp)
    bad_total = 0
    for i, ev in enumerate(evs):
        sub = os.path.join(wd, f"r{i}")
        cmd, extra = cmd_for(ev)
        core.run_vh(cmd, sub, shards=1, extra=extra)
        traces = sorted(glob.glob(os.path.join(sub, "*.ndjson")))
        res, bad, sigs = validate(rp, traces, wd)
        for b in bad:
            print("REPLAY mismatch:", [m[:400] for m in b[3][:2]])
        bad_total += len(bad)
    print("REPLAY", "violation reproduced" if bad_total else "no violation")
    return 1 if bad_total else 0
