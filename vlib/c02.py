"""C02 - received frames are authenticated and decoded exactly per spec, else untouched."""
from . import c01

PID = "C02"


def run():
    return c01.run_generic(PID, "codec_parse", "parse", "parser/authentication result differs from Codec.tla", c01.ASSUME + [
        "error kinds of refused input are not compared, only refusal itself (the property does not fix them)",
        "a JoinAccept that fails its MIC may leave a transformed buffer (the property restricts 'untouched' to data frames)",
    ], "every frame of C01's covering design parsed and decoded (round trip), with counters whose low/high half does or does not match, "
       "wrong keys, missing key, single/multi-bit mutations of MHDR/FCtrl/FCnt/length/MIC/payload, random byte strings of every "
       "length 0..255, JoinAccepts (right/wrong key, mutated) and JoinRequests; distinct = distinct (event kind, outcome, class, length) tuples")


def replay(path):
    return c01.replay_generic(PID, path)
