"""C01 - every frame the library builds is byte-exact LoRaWAN 1.0.x (Codec.tla / CodecTrace.tla)."""
import glob, json, os
from . import core, purefn

PID = "C01"
STEM = "build"
CMD = "codec_build"
WHAT = "frame builder output differs from Codec.tla"


def _summ(ev, mm):
    t = ev.get("ev")
    if t == "build_data":
        d = ev["d"]
        return (f"{t} mtype={d['mtype']} fcnt={d['fcnt']} fopts={len(d['fopts'])} port={d['port']} "
                f"len={len(d['frm'])} buflen={d['buflen']} ok={ev['ok']}: {mm[0][:120]}")
    return f"{t} ok={ev.get('ok')}: {mm[0][:160]}"


def count_kinds(traces):
    kinds, n = {}, 0
    distinct = set()
    for t in traces:
        for e in core.read_events(t):
            n += 1
            kinds[e["ev"]] = kinds.get(e["ev"], 0) + 1
            if e["ev"] == "build_data":
                d = e["d"]
                distinct.add((d["mtype"], d["adr"], d["adrackreq"], d["ack"], d["fpending"], len(d["fopts"]),
                              min(d["port"], 1), len(d["frm"]), e["ok"]))
            else:
                distinct.add((e["ev"], e.get("ok"), e.get("cls"), len(e.get("bytes", e.get("out", []))),
                              e.get("cftype"), e.get("dl")))
    return n, kinds, len(distinct)


def run_generic(pid, cmd, stem, what, assumptions, rule):
    rep = core.Report(pid)
    wd = core.workdir(pid)
    core.run_vh(cmd, wd, shards=core.NCPU)
    traces = sorted(glob.glob(os.path.join(wd, f"{stem}.*.ndjson")))
    res, bad = purefn.validate(pid, "CodecTrace.tla", "CodecTrace.cfg", traces)
    for tr, ln, ev, mm in bad:
        rep.violation({"property": pid, "event": ev, "mismatch": [m[:600] for m in mm[:4]]}, what + ": " + _summ(ev, mm))
    states, gen, accepted = purefn.totals(res)
    n, kinds, distinct = count_kinds(traces)
    cov = {
        "states": states, "transitions": gen, "traces_validated_against_impl": accepted,
        "evaluations": n, "distinct_nontrivial": distinct, "rule": rule, "event_kinds": kinds,
        "samples": [purefn.trim(e, 24) for e in core.read_events(traces[0], 2)],
    }
    return rep.finish("model_checking", cov, assumptions)


def replay_generic(pid, path):
    with open(path) as f:
        r = json.load(f)
    rp = pid + "-replay"
    wd = core.workdir(rp)
    src = os.path.join(wd, "in.ndjson")
    with open(src, "w") as f:
        f.write(json.dumps(r["event"]) + "\n")
    core.run_vh("codec_replay", wd, extra=[f"in={src}"])
    traces = sorted(glob.glob(os.path.join(wd, "replay.*.ndjson")))
    res, bad = purefn.validate(rp, "CodecTrace.tla", "CodecTrace.cfg", traces)
    for b in bad:
        print("REPLAY mismatch:", [m[:300] for m in b[3][:2]])
    print("REPLAY", "violation reproduced" if bad else "no violation")
    return 1 if bad else 0


ASSUME = [
    "Codec.tla/Aes.tla/Cmac.tla are written from LoRaWAN 1.0.3, FIPS-197 and RFC 4493 and pinned by FIPS-197 C.1/B, the four RFC 4493 vectors and one LoRaWAN frame (TLC ASSUMEs evaluated at every start)",
    "JoinAccept wrapping is checked as Encrypt(wire block) = plaintext block (equivalent to wire = Decrypt(plaintext) because AES is a bijection)",
    "a description with a port > 0, no application key and an empty payload may be refused or built (don't-care)",
]


def run():
    return run_generic(PID, CMD, STEM, WHAT, ASSUME,
                       "covering design of DESIGN §6 C01: every payload length 0..242, 4 types x 16 flag combinations, FOpts 0..20, "
                       "ports {none,0,1,223,224,255}, boundary counters, both software crypto variants, refusal classes at their "
                       "boundaries, JoinRequest, JoinAccept with every DLSettings byte / RxDelay / CFList type, plus seeded random fill; "
                       "distinct = distinct (type,flags,FOptsLen,port class,payload length,outcome) tuples")


def replay(path):
    return replay_generic(PID, path)
