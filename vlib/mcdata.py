"""The multicast part of a device built with the `multicast` cargo feature (non-default), under McTrace.tla: the group
table, the remote set-up handler that maintains it (FPort 200) and the data path that consults it.  One recording
(`vh mcdata`), three readings, each reported by the check of the property it belongs to:

  C05  data path - a frame of a group is accepted exactly when it is authentic for the 32-bit counter that matches the
       wire counter, that counter is the next the group may use or a later one and lies below maxMcFCount; never twice;
       frames of deleted / replaced groups are ignored; payloads delivered under that counter (clauses "C05 (multicast)")
  C08  set-up handler - one answer per request in request order, the table changes exactly as answered, the answers are
       transmitted at once on FPort 200 (clauses "multicast set-up")
  C09  the handler's own uplinks respect the limits of any other transmission: power no higher than the radio's maximum,
       the regional maximum less antenna gain and the level the network commanded; frequency in band (clauses "C09 (multicast")
  C06  every uplink of these histories (including the handler's own and those whose receive procedure a multicast frame
       ended) carries a counter strictly greater than the previous one and a MIC under it (CertTrace.tla clauses)."""
import glob, json, os, re
from . import core, macfam

_MM = re.compile(r'^<<\s*"MISMATCH",\s*(\d+),\s*(?:<<\s*)?"([^"]*)"')
_KN = re.compile(r'^<<\s*"KNOWN",\s*(\d+),\s*"([^"]+)"')

CLAUSES = {"C05": ("C05 (multicast)",), "C09": ("C09 (multicast",), "C08": ("multicast set-up", "McAddr", "McAppSKey", "McNetSKey", "maxMcFCount"), "C06": ()}
SIG_OWNER = {"mc-delete-ans-undefined-drops-group-id": "C08"}


def open_signatures():
    p = os.path.join(core.ROOT, "known_findings.json")
    return {k["signature"]: k for k in json.load(open(p)).get("findings", [])
            if k.get("status") == "open" and str(k.get("signature", "")).startswith("mc-")}


def validate(pid, traces, wd):
    kf = os.path.join(wd, "known_mc.json")
    with open(kf, "w") as f:
        json.dump(sorted(open_signatures()), f)
    return core.validate_traces("McTrace.tla", "McTrace.cfg", traces, pid + "-mc", env={"KNOWN": kf}, xmx="3g")


def record(wd):
    d = os.path.join(wd, "mcdata")
    os.makedirs(d, exist_ok=True)
    for f in glob.glob(os.path.join(d, "mac.*.ndjson")):
        os.remove(f)
    core.run_vh("mcdata", d, shards=8, cert=True)
    return d, sorted(glob.glob(os.path.join(d, "mac.*.ndjson")))


def coverage(traces):
    """what the recording contains, by class (counted from the trace files, not from the specification)"""
    c = {"group_frames_accepted_while_listening": 0, "group_frames_ignored_while_listening": 0, "group_expired_reported": 0,
         "group_frames_heard_in_rx1_rx2": 0, "group_frames_heard_between_windows": 0,
         "setup_downlinks_in_windows": 0, "setup_downlinks_while_listening": 0, "handler_uplinks_fport200": 0,
         "new_group_reported": 0, "payloads_taken": 0}
    for t in traces:
        for e in core.read_events(t):
            calls = e.get("calls", [])
            if e["ev"] == "a_rxc":
                heard = [x for x in calls if x.get("out") == "frame"]
                r = e.get("resp", {})
                for x in heard:
                    if x.get("intent", "").startswith("mc:setup"):
                        c["setup_downlinks_while_listening"] += 1
                if heard and not heard[0].get("intent", "").startswith("mc:setup"):
                    if r.get("mk") == "received":
                        c["group_frames_accepted_while_listening"] += 1
                    elif r.get("mk") == "expired":
                        c["group_expired_reported"] += 1
                    elif r.get("k") == "Pending":
                        c["group_frames_ignored_while_listening"] += 1
            elif e["ev"] == "a_proc":
                for x in calls:
                    if x.get("out") == "frame" and x.get("intent", "").startswith("mc:setup"):
                        c["setup_downlinks_in_windows"] += 1
                    if x.get("out") == "frame" and x.get("intent", "").startswith("mc:data"):
                        c["group_frames_heard_in_rx1_rx2" if x.get("c") == "rx_single" else "group_frames_heard_between_windows"] += 1
            if e["ev"] in ("a_rxc", "a_proc"):
                if e.get("resp", {}).get("mk") == "new":
                    c["new_group_reported"] += 1
                for x in calls:
                    b = x.get("bytes") or []
                    if x.get("c") == "tx" and len(b) > 9 and (b[5] & 0x0f) == 0 and b[8] == 200:
                        c["handler_uplinks_fport200"] += 1
            if e["ev"] == "take_dl":
                c["payloads_taken"] += len(e.get("got", []))
    return c


def _report(rep, pid, res, mine, what):
    """mine(name) -> does the violated clause belong to this property's reading"""
    nviol = 0
    for r in res:
        lines = {}
        for m in r["mismatches"]:
            mm = _MM.match(m)
            if mm and mine(mm.group(2)):
                lines.setdefault(int(mm.group(1)), []).append(m)
        if not r["accepted"] and not lines:
            # a trace the specification cannot follow at all is everybody's problem
            lines[r.get("matched", 0) + 1] = ["trace rejected"]
        for ln in sorted(lines):
            nviol += 1
            if nviol > 20:
                continue
            hist = macfam.history_of(r["trace"], ln)
            ev = hist[-1]
            rep.violation({"property": pid, "mc": True, "cert": True, "ops": macfam.ops_of(hist),
                           "failing_event": {k: ev[k] for k in ev if k != "opj"}, "mismatch": [x[:1200] for x in lines[ln][:3]]},
                          f"multicast build, {what}: event {len(hist)} ({ev['ev']}): {lines[ln][0][:260]}")


def extra(pid):
    def fn(rep, wd):
        d, traces = record(wd)
        n, hist, kinds, distinct = macfam.summarise(traces)
        frames = sum(1 for t in traces for e in core.read_events(t) if e["ev"] in ("a_rxc", "a_proc")
                     for c in e.get("calls", []) if c.get("out") == "frame")
        if pid == "C06":
            res, _ = macfam.validate_cert(pid, traces, d)
            _report(rep, pid, res, lambda name: name.startswith("C06"), "uplink counters")
            module, rule = "CertTrace.tla", ("the C06 clauses of CertTrace.tla on the histories of `vh mcdata`: every frame handed to the radio - application uplinks, the "
                                            "set-up handler's own FPort-200 uplinks, and uplinks whose receive procedure was ended by a multicast frame heard in RX1 / RX2 - "
                                            "carries a counter strictly greater than the previous one and a MIC that verifies under it")
        else:
            res = validate(pid, traces, d)
            pre = CLAUSES[pid]
            _report(rep, pid, res, lambda name: name.startswith(pre), {"C08": "set-up handler", "C09": "uplinks of the set-up handler"}.get(pid, "data path"))
            sigs = open_signatures()
            seen = {}
            for r in res:
                for t in r.get("known", []):
                    m = _KN.match(t)
                    if m and m.group(2) in sigs:
                        seen[m.group(2)] = seen.get(m.group(2), 0) + 1
            for sig, cnt in sorted(seen.items()):
                if SIG_OWNER.get(sig) == pid:
                    rep.known_finding(f"[{sigs[sig]['id']}] {sigs[sig]['line'][:400]} ({cnt} answers in this run)")
            module = "McTrace.tla"
            rule = ("device built with cargo feature `multicast` (non-default), async + Class C; McTrace.tla decodes every heard and every transmitted frame "
                    "itself. Data-path histories: a group (id 0 and 3) for six (minMcFCount, maxMcFCount) ranges (from 0; from 5; across the 16-bit roll-over; "
                    "across a 17-bit boundary; the whole 32-bit range; an empty range), frames at, below and above minMcFCount, in order, repeated, out of "
                    "order, at and beyond maxMcFCount, with a broken MIC and under another address. Group-table histories: six scripted ones (two groups, "
                    "status / delete / delete of an empty slot, two slots under one address; a group set up again and under a new key; several requests "
                    "in one frame; unimplemented, unknown and truncated requests inside a stream; answers beyond the 242 octets of one uplink; frames of "
                    "a group heard in RX1, RX2, before RX1 and between the windows of an uplink) and seeded random walks over the table (set up / replace "
                    "/ delete / status / version requests via RX1, RX2 and Class C listening, frames of live, deleted and replaced groups with next, later, "
                    "repeated, earlier, minimum and maximum counters)")
        cov = coverage(traces)
        # vacuity guard: every class of observation the readings rest on must occur in the recording
        empty = [k for k, v in cov.items() if v == 0]
        if empty:
            raise core.ToolError(f"multicast recording is vacuous for {empty} (the recorder no longer produces these observations)")
        return {"_states": sum(r["distinct"] for r in res), "_transitions": sum(r["generated"] for r in res),
                "_evaluations": n, "_distinct": frames,
                "multicast_build": {"module": module, "histories": hist, "events": n, "frames_heard": frames, "observations": cov, "rule": rule}}
    return fn


def replay(pid, path):
    with open(path) as f:
        r = json.load(f)
    rp = pid + "-replay"
    wd = core.workdir(rp)
    src = os.path.join(wd, "ops.json")
    with open(src, "w") as f:
        json.dump({"ops": r["ops"], "hseed": r.get("hseed", "")}, f)
    core.run_vh("macreplay", wd, extra=[f"in={src}"], cert=True)
    traces = sorted(glob.glob(os.path.join(wd, "mac.*.ndjson")))
    if pid == "C06":
        res, _ = macfam.validate_cert(rp, traces, wd)
        ok = lambda name: name.startswith("C06")
    else:
        res = validate(rp, traces, wd)
        pre = CLAUSES[pid]
        ok = lambda name: name.startswith(pre)
    bad = [m for x in res for m in x["mismatches"] if _MM.match(m) and ok(_MM.match(m).group(2))] + [1 for x in res if not x["accepted"]]
    for m in [b for b in bad if isinstance(b, str)][:3]:
        print("REPLAY mismatch:", m[:400])
    print("REPLAY", "violation reproduced" if bad else "no violation")
    return 1 if bad else 0
