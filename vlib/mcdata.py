"""The multicast data path of a device built with the `multicast` cargo feature (non-default), under McTrace.tla:
C05 read for a multicast session - a frame of the group is accepted exactly when it is authentic for the 32-bit
counter that matches the wire counter, that counter is the next the group may use or a later one and lies below
maxMcFCount; never twice."""
import glob, json, os, re
from . import core, macfam

_MM = re.compile(r'^<<\s*"MISMATCH",\s*(\d+),')


def validate(pid, traces):
    return core.validate_traces("McTrace.tla", "McTrace.cfg", traces, pid + "-mc", xmx="3g")


def extra(pid):
    def fn(rep, wd):
        d = os.path.join(wd, "mcdata")
        os.makedirs(d, exist_ok=True)
        for f in glob.glob(os.path.join(d, "mac.*.ndjson")):
            os.remove(f)
        core.run_vh("mcdata", d, shards=4, cert=True)
        traces = sorted(glob.glob(os.path.join(d, "mac.*.ndjson")))
        res = validate(pid, traces)
        nviol = 0
        for r in res:
            lines = {}
            for m in r["mismatches"]:
                mm = _MM.match(m)
                if mm:
                    lines.setdefault(int(mm.group(1)), []).append(m)
            if not r["accepted"] and not lines:
                lines[r.get("matched", 0) + 1] = ["trace rejected"]
            for ln in sorted(lines):
                nviol += 1
                if nviol > 20:
                    continue
                hist = macfam.history_of(r["trace"], ln)
                ev = hist[-1]
                intent = (ev.get("calls") or [{}])[0].get("intent", "")
                rep.violation({"property": pid, "mc": True, "cert": True, "ops": macfam.ops_of(hist),
                               "failing_event": {k: ev[k] for k in ev if k != "opj"}, "mismatch": [x[:1200] for x in lines[ln][:3]]},
                              f"multicast build, data path: event {len(hist)} ({ev['ev']} {intent}): {lines[ln][0][:260]}")
        n, hist, kinds, distinct = macfam.summarise(traces)
        frames = sum(1 for t in traces for e in core.read_events(t) if e["ev"] == "a_rxc")
        return {"_states": sum(r["distinct"] for r in res), "_transitions": sum(r["generated"] for r in res),
                "_evaluations": n, "_distinct": frames,
                "multicast_data_path": {"module": "McTrace.tla", "histories": hist, "events": n, "frames_judged": frames,
                                        "rule": "device built with cargo feature `multicast` (non-default), async + Class C: a group (id 0 and 3) set up by an authentic "
                                                "McGroupSetupReq for six (minMcFCount, maxMcFCount) ranges (from 0; from 5; across the 16-bit roll-over of the wire "
                                                "counter; across a 17-bit boundary; the whole 32-bit range; an empty range), then frames of the group heard one at a "
                                                "time: at, below and above minMcFCount, in order, repeated, out of order, at and beyond maxMcFCount, with a broken "
                                                "MIC and under another address; McTrace.tla re-derives the session keys (TS005 key hierarchy, Aes.tla) and decides "
                                                "acceptance, the 32-bit counter reported and the payloads delivered"}}
    return fn


def replay(pid, path):
    with open(path) as f:
        r = json.load(f)
    rp = pid + "-replay"
    wd = core.workdir(rp)
    src = os.path.join(wd, "ops.json")
    with open(src, "w") as f:
        json.dump({"ops": r["ops"], "hseed": r.get("hseed", "")}, f)
    core.run_vh("macreplay", wd, extra=[f"in={src}"], cert=True)
    traces = sorted(glob.glob(os.path.join(wd, "mac.*.ndjson")))
    res = validate(rp, traces)
    bad = [m for x in res for m in x["mismatches"]] + [1 for x in res if not x["accepted"]]
    for m in [b for b in bad if isinstance(b, str)][:3]:
        print("REPLAY mismatch:", m[:400])
    print("REPLAY", "violation reproduced" if bad else "no violation")
    return 1 if bad else 0
