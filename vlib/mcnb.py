"""Specification -> implementation for the non-blocking front-end: MCNb.tla (the four-state nb machine driven by
every event the API allows, over the operators of Mac.tla) is model-checked (design properties of C06 / C10 / C11,
and - MCNbLive.cfg - that every receive procedure returns), and TLC prints one event sequence per TRANSITION of the
model; the maximal ones are executed on the real nb device (`vh nbwalk seqs=`) and MacTrace.tla judges every event."""
import glob, json, os, re
from . import core, macfam

_REPLAY = re.compile(r'^<<"REPLAY", "(.*)">>\s*$')


def sequences(pid):
    r = core.model_check("MCNb.tla", "MCNbGen.cfg", pid, workers=1, coverage=False, timeout=1800)
    seqs = set()
    for line in r["out"].splitlines():
        m = _REPLAY.match(line)
        if m:
            seqs.add(m.group(1).replace('\\"', '"'))
    hl = [json.loads(h) for h in seqs]
    prefixes = set()
    for h in hl:
        for i in range(1, len(h)):
            prefixes.add(json.dumps(h[:i], sort_keys=True))
    # (TLC prints the fields of a freshly built record in construction order and those of a stored one sorted: compare canonically)
    maximal = sorted((h for h in hl if json.dumps(h, sort_keys=True) not in prefixes), key=lambda x: json.dumps(x, sort_keys=True))
    return maximal, r, len(hl)


def extra(pid):
    def fn(rep, wd):
        maximal, r, printed = sequences(pid)
        if not maximal:
            raise core.ToolError("MCNbGen.cfg printed no event sequence")
        d = os.path.join(wd, "mcnb")
        os.makedirs(d, exist_ok=True)
        for f in glob.glob(os.path.join(d, "mac.*.ndjson")):
            os.remove(f)
        src = os.path.join(d, "seqs.ndjson")
        with open(src, "w") as f:
            for h in maximal:
                f.write(json.dumps(h) + "\n")
        core.run_vh("nbwalk", d, shards=core.NCPU, extra=[f"seqs={src}", "regions=EU868"])
        traces = sorted(glob.glob(os.path.join(d, "mac.*.ndjson")))
        res, sigs = macfam.validate(pid, traces, d)
        macfam.report(rep, pid, res, sigs, "event sequence of the nb front-end model (MCNb) not followed by the implementation")
        n, hist, kinds, distinct = macfam.summarise(traces)
        return {"_states": sum(x["distinct"] for x in res), "_transitions": sum(x["generated"] for x in res),
                "_evaluations": n, "_distinct": distinct,
                "nb_model_sequences_replayed_into_impl": {
                    "module": "MCNb.tla", "cfg": "MCNbGen.cfg", "design_states": r["distinct"], "transitions_printed": printed,
                    "maximal_sequences_executed": len(maximal), "histories_executed": hist, "events": n,
                    "rule": "one event sequence per transition of the design-level model of the nb state machine (history hidden by VIEW), "
                            "proper prefixes dropped; events {send answered done / txing / error, join, txdone, timer with the radio accepting or "
                            "refusing, authentic / MIC-broken / oversize frame, JoinAccept, stray and failure radio events, set_datarate low / high}; "
                            "executed on the real nb device from a fresh ABP session; every event validated by MacTrace.tla"}}
    return fn
