"""C17 - programmed frequency, TX power and RX timeout decode to what was requested; RSSI/SNR follow the data sheet
(decode operators of Sx126xWire.tla / Sx127xWire.tla, Modulation.tla; WireTrace.tla)."""
import glob, json, os
from . import core, purefn, wirefam

PID = "C17"


def _summ(ev, mm):
    t = ev["ev"]
    head = {"dfreq": "RF frequency", "dpower": "TX power", "dsymb": "symbol-count RX timeout", "symbols": "LoRaWAN adapter ms->symbols",
            "pktstatus": "packet status conversion", "rssiinst": "instantaneous RSSI conversion"}.get(t, t)
    extra = " ".join(f"{k}={ev[k]}" for k in ("chip", "band", "boost", "sf", "bw") if k in ev)
    return f"{head} ({extra}): {mm[0][:300]}"


def _slim(ev, mm):
    """Keep the event replayable but small: the batch parameters, not every case."""
    return {k: (v[:3] if k == "cases" else v) for k, v in ev.items()}


def _cmd_for(ev):
    part = {"dfreq": "freq", "dpower": "power", "dsymb": "symb", "symbols": "adapter", "pktstatus": "status", "rssiinst": "status"}[ev["ev"]]
    extra = [f"parts={part}", f"chips={ev['chip']}"]
    if ev["ev"] == "dfreq":
        f0 = ev["f0"][0] * 65536 + ev["f0"][1]
        extra.append(f"freq={f0},{ev['step']},{ev['n']}")
    return "decode", extra


def run():
    rep = core.Report(PID)
    wd = core.workdir(PID)
    out = core.run_vh("decode", wd, shards=core.NCPU)
    traces = sorted(glob.glob(os.path.join(wd, "decode.*.ndjson")))
    res, bad, sigs = wirefam.validate(PID, traces, wd)
    for tr, ln, ev, mm in bad:
        rep.violation({"property": PID, "replay_event": _slim(ev, mm), "mismatch": [m[:900] for m in mm[:4]]}, _summ(ev, mm))
    known = wirefam.report_known(rep, res, sigs)
    states, gen, accepted = wirefam.totals(res)
    per = {}
    distinct = set()
    samples = {}
    for e in wirefam.events(traces):
        k = f"{e['ev']}/{e['chip']}"
        per[k] = per.get(k, 0) + len(e["cases"])
        if e["ev"] == "dfreq":
            f0 = e["f0"][0] * 65536 + e["f0"][1]
            for i in range(e["n"]):
                distinct.add(("f", e["chip"], f0 + i * e["step"]))
        elif e["ev"] == "dpower":
            for c in e["cases"]:
                distinct.add(("p", e["chip"], e["band"], e["boost"], e["prep"], c[0]))
        elif e["ev"] == "dsymb":
            for c in e["cases"]:
                distinct.add(("s", e["chip"], c[0]))
        elif e["ev"] == "symbols":
            for c in e["cases"]:
                distinct.add(("a", e["chip"], e["sf"], e["bw"], c[0]))
        elif e["ev"] == "pktstatus":
            for c in e["cases"]:
                distinct.add(("q", e["chip"], e["band"], c[0], c[1], c[2]))
        else:
            for c in e["cases"]:
                distinct.add(("r", e["chip"], e["band"], c[0]))
        if e["ev"] not in samples:
            samples[e["ev"]] = purefn.trim(dict(e, cases=e["cases"][:2]), 8)
    thorough = core.tier() == "thorough"
    n = sum(per.values())
    # Apalache (SMT): accuracy, monotonicity and periodicity of the very conversion operators the wire modules use,
    # for EVERY frequency 137..1020 MHz on the 1 Hz grid
    lem = core.apalache_check("PllApa.tla", "Inv", PID)
    if not lem["ok"]:
        core.log(lem["out"][-3000:])
        raise core.ToolError("PllApa.tla: Apalache did not prove the conversion lemma - the specification itself is wrong")
    cov = {
        "states": states, "transitions": gen, "traces_validated_against_impl": accepted,
        "evaluations": n, "distinct_nontrivial": len(distinct),
        "rule": "one evaluation = one request driven through the real driver over the emulated SPI bus and decoded by TLC with the "
                "data sheet formulas: (chip, frequency) -> synthesiser word; (chip variant, PA path, band, ramp, requested dBm) -> PA "
                "registers; (chip, symbol count) -> timeout registers; (chip, SF, BW, ms) through LorawanRadio -> timeout registers; "
                "(chip, band, raw status bytes) -> reported RSSI/SNR. distinct = distinct such tuples (every one is a separate point "
                "of the function under test, none is trivial)",
        "cases_per_kind": per, "known_deviation_matches": known,
        "symbolic_lemma": {"tool": "apalache-mc 0.58 (SMT)", "module": "PllApa.tla (PllCore.tla operators, the ones Sx126xWire / Sx127xWire use)",
                           "invariant": "nearest synthesiser step (SX126x < 1 Hz, SX127x < 62 Hz), monotone, periodic word(f+15625) = word(f) + 2^14 / 2^8, fits the register",
                           "domain": "every f in 137000000..1020000000 Hz, symbolically", "wall_s": round(lem["wall"], 1)},
        "samples": list(samples.values())[:4],
        "exhaustive": False,
        "explanation": ("frequency: every 100 Hz of the LoRaWAN bands, stride 9973 Hz over 137-1020 MHz, five full 15625 Hz periods of the "
                        "SX126x conversion at 1 Hz, periodicity at 400 random bases; power: -128..127 and i32 extremes x 4 SX126x variants "
                        "x 3 bands x 2 ramps and SX1276/SX1272 x RFO/PA_BOOST; all symbol counts 0..65535 x 3 chips; every (SF,BW) x 0..1000 ms "
                        "through LorawanRadio; all 256 values per SX126x status byte + full (rssi,snr) cross; the 2^16 (rssi,snr) cross for "
                        "SX1276 HF/LF and SX1272" if thorough else
                        "frequency: LoRaWAN channel grids, stride 100 kHz over 137-1020 MHz, one full SX126x period at 1 Hz, periodicity at 40 "
                        "bases; power: all requests; symbol counts 0..1100 and a stride; (SF,BW) x 57 ms values; status bytes: SX126x per byte "
                        "+ 56x56 cross, SX127x full 2^16 cross"),
    }
    return rep.finish("model_checking", cov, [
        "decode operators are written from the data sheets: SX126x RF = word*32e6/2^25, table 13-21 (PA optimal settings, 1 dB per "
        "SetTxParams step below a row), symbol timeout = mantissa*2^(2*exp+1), RSSI = -raw/2, SNR = raw/4; SX127x Frf = word*32e6/2^19, "
        "Pout formulas of RegPaConfig/RegPaDac, 10-bit SymbTimeout, RSSI offsets -157/-164/-139 with the 16/15 slope",
        "the full 1 Hz sweep 137-1020 MHz (8.8e8 values) is not enumerated: the SX126x conversion is checked on whole periods plus the "
        "periodicity relation word(f+15625) = word(f)+16384 at random bases; that the specification's conversion is periodic, monotone and "
        "nearest-step for every frequency is proved by Apalache (PllApa.tla); that the driver computes the specification's word is what the trace check samples",
        "SX127x RSSI with negative SNR: the data sheet omits the 16/15 slope correction in that branch, SWL2001/LoRaMac-node apply it; "
        "either reading is accepted within 1 dB, with branch and SNR term judged on the reported whole-dB SNR",
        "the LoRaWAN adapter's symbol count is observed through the timeout registers the drivers program (SX1276: exact up to 1023 "
        "symbols; SX1262: rounded up by the mantissa/exponent encoding, saturating at 248); saturated values are not judged",
        "chip power ranges: SX1262/STM32WL-HP -9..+22 dBm, SX1261/STM32WL-LP -17..+15 dBm (+14 below 400 MHz), SX1276 RFO -4..+14, "
        "SX1272 RFO -1..+14, PA_BOOST +2..+20 dBm",
    ])


def replay(path):
    with open(path) as f:
        r = json.load(f)
    return wirefam.replay_events(PID, [r["replay_event"]], _cmd_for)
